#!/bin/bash
# MANIFEST.setup_cmd: offline, from files on disk only.
HERE="$(cd "$(dirname "${BASH_SOURCE[0]}")" && pwd)"
cd "$HERE" || exit 1
export PIP_NO_INDEX=1
/venv/bin/python -c "import hypothesis" 2>/dev/null || \
  /venv/bin/pip install -q --no-index --find-links /opt/veriftools/wheels hypothesis || exit 1
mkdir -p "$HERE/.deps"
PYTHONPATH="$HERE/.deps" /venv/bin/python -c "import mpmath" 2>/dev/null || \
  /venv/bin/pip install -q --no-index --find-links /opt/veriftools/wheels --target "$HERE/.deps" mpmath || exit 1
# warm the build cache for the current tree (each check rebuilds on its own if /repo changes)
/venv/bin/python -B -m vp.build || exit 1
echo "setup ok"
