#!/venv/bin/python
"""Regenerate MANIFEST.json from the check modules present under checks/.

Per-property text comes from module attributes LEVEL_TEXT, LEVEL_NOTE, TECHNIQUE,
DESIGN_REF; properties without a module go to not_applicable with the reason in
tools/not_claimed.json (default: not built yet).
"""
import glob
import json
import os
import re
import sys

HERE = os.path.dirname(os.path.dirname(os.path.abspath(__file__)))
sys.path.insert(0, HERE)


def attr(src, name, default=None):
    m = re.search(r"^%s\s*=\s*(\(.*?\)|\".*?\"|\[.*?\])\s*$" % name, src, re.S | re.M)
    if not m:
        return default
    return eval(m.group(1), {})  # our own files


def main():
    props = [json.loads(l) for l in open(os.path.join(HERE, "properties.jsonl"))]
    nc_path = os.path.join(HERE, "tools", "not_claimed.json")
    not_claimed = json.load(open(nc_path)) if os.path.exists(nc_path) else {}
    checks, na = [], []
    for p in props:
        pid = p["id"]
        mods = glob.glob(os.path.join(HERE, "checks", "c%s_*.py" % pid[1:]))
        if pid in not_claimed or not mods:
            na.append({"property_id": pid,
                       "reason": not_claimed.get(pid, "check not built yet (work in progress, see DESIGN.md section 5)")})
            continue
        src = open(mods[0]).read()
        checks.append({
            "property_id": pid,
            "quick_cmd": "./check %s --tier quick" % pid,
            "thorough_cmd": "./check %s --tier thorough" % pid,
            "evidence_file": "/verif/evidence/%s.json" % pid,
            "replay_cmd_template": "./check %s --replay {path}" % pid,
            "engine": "hypothesis-runner",
            "level_claimed": {
                "category": "exploration",
                "text": attr(src, "LEVEL_TEXT", "Generated-input search (Hypothesis) against an independent oracle; "
                             "shows the property on every generated case, never absence of violations."),
                "design_ref": attr(src, "DESIGN_REF", "DESIGN.md section 5, %s" % pid),
            },
            "level_note": attr(src, "LEVEL_NOTE", "Trusted: numpy, Hypothesis, the reference model in the check module. "
                               "Bounds and generator domain as stated in the evidence rule."),
            "technique": attr(src, "TECHNIQUE", "property-based testing (Hypothesis) against a reference model"),
        })
    man = {
        "version": 1,
        "setup_cmd": "./setup.sh",
        "hooks": {
            "guard": "ESUTIL_VERIF",
            "enable": "no source hooks are needed: every property is observed through the public API on a build "
                      "of /repo's working tree made by vp/build.py (ESUTIL_VERIF is reserved and unused)",
            "baseline_off_cmd": "cd /repo && /venv/bin/python -m pytest -ra -q -p no:cacheprovider --timeout=900 "
                                "--continue-on-collection-errors",
            "source_commits": [],
            "add_only": True,
        },
        "engines": [{
            "name": "hypothesis-runner",
            "path": "/verif/vp/runner.py",
            "serves_properties": [c["property_id"] for c in checks],
            "kind_free_text": "Hypothesis 6.168 property-based testing: seeded, sharded over 16 processes, JSON cases, "
                              "shrunk failures written as replay files and re-executed without Hypothesis by --replay; "
                              "exhaustive enumeration of small finite sub-domains where stated",
        }],
        "checks": checks,
        "not_applicable": na,
        "notes": "All checks: exit 0 held / exit 1 with VIOLATION line / exit 2 harness problem. VERIF_SEED selects "
                 "the Hypothesis seed; VERIF_REPO overrides /repo (mutation runs only). Known findings: "
                 "/verif/known_findings.json (read-only at run time).",
    }
    with open(os.path.join(HERE, "MANIFEST.json"), "w") as fh:
        json.dump(man, fh, indent=1)
        fh.write("\n")
    try:
        import jsonschema
        jsonschema.validate(man, json.load(open("/root/.vp/MANIFEST.schema.json")))
        print("MANIFEST.json valid: %d checks, %d not_applicable" % (len(checks), len(na)))
    except ImportError:
        print("MANIFEST.json written (jsonschema not available here): %d checks" % len(checks))


if __name__ == "__main__":
    main()
