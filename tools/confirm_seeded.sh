#!/bin/bash
# tools/confirm_seeded.sh <dir with patch.diff + demo.py> <PROPERTY-ID> [more IDs to run]
# Confirms a seeded change the way the brief asks, in a scratch worktree of /repo HEAD:
#   1. patch applies and the extensions build
#   2. the repository's pinned suite still passes (167) with the patch
#   3. the demonstration passes WITHOUT the patch and fails WITH it
#   4. runs the quick tier of the named checks against the patched tree (VERIF_REPO)
# Prints a summary block; exit 0 if 1-3 hold (4 is reported, not required).
set -u
D="$(cd "$1" && pwd)"; shift
IDS=("$@")
W=/tmp/seed-$$-$RANDOM
git -C /repo worktree add -q --detach "$W" HEAD || exit 2
cleanup() { git -C /repo worktree remove --force "$W" >/dev/null 2>&1; rm -rf "$W"; }
trap cleanup EXIT
PY=/venv/bin/python
demo() { ( cd "$W" && PYTHONPATH="$W" timeout 600 $PY "$D/demo.py" >/tmp/seed-demo-$$.log 2>&1 ); }

( cd "$W" && $PY setup.py -q build_ext --inplace -j16 >/tmp/seed-build-$$.log 2>&1 ) || { echo "BASE BUILD FAILED"; exit 2; }
demo; rc_clean=$?
git -C "$W" apply "$D/patch.diff" || { echo "RESULT patch does not apply to /repo HEAD"; exit 1; }
( cd "$W" && $PY setup.py -q build_ext --inplace -j16 >/tmp/seed-build-$$.log 2>&1 ) || { echo "RESULT patched tree does not build"; tail -5 /tmp/seed-build-$$.log; exit 1; }
demo; rc_patched=$?
tests=$( cd "$W" && PYTHONPATH="$W" $PY -m pytest -q -p no:cacheprovider --timeout=900 -n 8 2>&1 | tail -1 )
echo "demo without patch: exit $rc_clean   (want 0)"
echo "demo with patch:    exit $rc_patched (want != 0)"
echo "repo suite with patch: $tests"
ok=1
[ $rc_clean -eq 0 ] || ok=0
[ $rc_patched -ne 0 ] || ok=0
echo "$tests" | grep -q "167 passed" || ok=0
echo "$tests" | grep -q "failed" && ok=0
# the in-tree .so files would shadow nothing for the checks (they build their own copy), but remove them so
# the hash only sees sources
find "$W" -name "*.so" -delete; rm -rf "$W/build" "$W/tmp"
for id in "${IDS[@]}"; do
  t0=$(date +%s)
  out=$(cd /verif && VERIF_REPO="$W" VERIF_BUILD_DIR=/tmp/mut-build timeout -k 10 1800 ./check "$id" --tier quick --no-evidence 2>&1 | grep -av WARNING)
  echo "$out" | grep -a "VIOLATION\|HARNESS\|subcheck=" | cut -c1-260 | head -8
  echo "check $id: $(echo "$out" | grep -ac '^VIOLATION') violation line(s) in $(( $(date +%s) - t0 ))s"
done
rm -f /tmp/seed-demo-$$.log /tmp/seed-build-$$.log
[ $ok -eq 1 ] && echo "RESULT confirmed" || echo "RESULT NOT confirmed"
[ $ok -eq 1 ]
