#!/bin/bash
# tools/revert_sweep.sh  -- for every "fixed" known finding: revert its fix: commit in a scratch worktree and run
# the owning check's quick tier against it WITHOUT the pinned regression replays (VERIF_NO_REGRESS=1), i.e. ask
# whether the generated search alone re-finds the defect.  Prints one line per finding.
cd /verif || exit 2
/venv/bin/python - <<'PY' > /tmp/revert_sweep.list
import json
seen=set()
for f in json.load(open('/verif/known_findings.json'))['findings']:
    if f['status']=='fixed' and (f['property'],f['commit']) not in seen:
        seen.add((f['property'],f['commit'])); print(f['property'], f['commit'], f['key'])
PY
while read -r pid commit key; do
  W=/tmp/rev-$$-$commit
  git -C /repo worktree add -q --detach "$W" HEAD || exit 2
  if ! git -C "$W" revert --no-commit "$commit" >/dev/null 2>&1; then
     echo "$pid $key $commit: REVERT-CONFLICT"; git -C /repo worktree remove --force "$W"; continue
  fi
  t0=$(date +%s)
  out=$(VERIF_NO_REGRESS=1 VERIF_REPO="$W" VERIF_BUILD_DIR=/tmp/mut-build VERIF_JOBS=${VERIF_JOBS:-8} timeout -k 10 1800 ./check "$pid" --tier quick --no-evidence 2>&1 | grep -av WARNING)
  n=$(echo "$out" | grep -ac '^VIOLATION')
  subs=$(echo "$out" | grep -a '^  subcheck=' | sed 's/^  subcheck=\([a-z_0-9A-Z]*\):.*/\1/' | sort -u | tr '\n' ',')
  echo "$pid $key $commit: $n violation line(s) [${subs%,}] $(( $(date +%s) - t0 ))s"
  git -C /repo worktree remove --force "$W" >/dev/null 2>&1; rm -rf "$W"
done < /tmp/revert_sweep.list
rm -rf /tmp/mut-build /tmp/revert_sweep.list
