#!/usr/bin/env python3
"""Print the prompt for an independent mutant-writing sub-agent: tools/mutant_prompt.py C07 /tmp/mw-C07 [n]"""
import json
import os
import sys

HERE = os.path.dirname(os.path.dirname(os.path.abspath(__file__)))
pid, wt = sys.argv[1], sys.argv[2]
n = int(sys.argv[3]) if len(sys.argv) > 3 and sys.argv[3].isdigit() else 3
TRIED = ""
if "--tried" in sys.argv:
    # round 4 onwards: tell the author what earlier rounds already did, so the round looks for other mechanisms
    import glob
    titles = []
    for m in sorted(glob.glob(os.path.join(HERE, "seeded", pid + "-*", "meta.json"))):
        titles.append(json.load(open(m)).get("title", ""))
    TRIED = ("ALREADY TRIED BY OTHERS — choose different mechanisms and different trigger conditions than these "
             "(do not produce variations of them):\n" + "".join(f"  - {t}\n" for t in titles if t) +
             "\nLook for places those ideas do not touch: other functions and entry points named in the property, "
             "other clauses of the statement, other option values, error paths, numeric edge regions, interactions "
             "between two options, and the C/C++ sources.\n\n")
p = [json.loads(l) for l in open(os.path.join(HERE, "properties.jsonl")) if json.loads(l)["id"] == pid][0]

print(f"""You are testing how well a verification effort can detect subtle bugs. Your job: write {n} DIFFERENT
realistic bug-introducing changes ("seeded changes") to the open-source Python/C library esheldon/esutil that each
break the semantic property below while the library still builds and its existing test suite still passes.

THE PROPERTY ({pid}: {p['title']})
Statement: {p['statement']}
Quantified over: {p['quantifier']['text']}
Code it is anchored in: {', '.join(p['anchors']['files'])}

YOUR WORKSPACE
* A private git worktree of the library: {wt} (already created, clean, at the current HEAD). Work ONLY there.
  Do not read or write anything under /verif or /repo (in particular do not look at /verif: your changes must be
  independent of what the verifiers built). Do not use the network (there is none).
* Python: /venv/bin/python (numpy, scipy, pytest installed). Build the C/C++ extensions of your worktree with
  `cd {wt} && /venv/bin/python setup.py -q build_ext --inplace -j8` (about 15 s; needed once at the start and again
  after any change to a .c/.cc/.cpp file). Run code against your worktree with `cd {wt} && PYTHONPATH={wt} /venv/bin/python …`.
* The existing test suite: `cd {wt} && PYTHONPATH={wt} /venv/bin/python -m pytest -q -p no:cacheprovider -n 8`
  (167 tests, must all still pass WITH each of your changes applied).
* The shell prints a conda WARNING line on every command; ignore it.

WHAT MAKES A GOOD SEEDED CHANGE
* It is the kind of mistake a maintainer could plausibly make in a refactor, optimisation, "simplification" or bug
  fix: small (1-15 lines), in the library's own source (Python or C/C++), looks innocent in review.
* It really violates the property as stated (observable through the public API), but only when something specific
  happens: an unusual but valid input (a boundary value, a particular dtype / byte order / memory layout, a pole or
  the 0/360 seam, an empty or single-element selection, a size above some threshold), a particular option
  combination, a multi-step sequence of operations on one object, a particular history of calls, or two cooperating
  sites that each look fine alone. NOT something ordinary use or the first obvious test would expose at once, and not
  a change that makes every call fail.
* It must not depend on wall-clock time, randomness without a seed, or the environment.
* The {n} changes must have different root causes / touch different mechanisms (ideally different functions).
* Spread them over different KINDS of trigger. Aim for: one that depends on a size or count threshold or on a
  rarely taken branch/fast path; one that depends on the dtype / byte order / memory layout / container type of an
  argument or on an option combination; one that needs a sequence of calls on the same object or the same arrays
  (state carried between calls); and (where the property's code has C/C++ parts) one in the C/C++ source. Prefer
  triggers that a random test with "typical" inputs would hit less than once in a few thousand cases.
* Do not touch the tests. Do not add new files to the library. No comments that give the bug away.

{TRIED}DELIVERABLE — for each change k = 1..{n} a directory {wt}-out/m{{k}}/ containing:
* patch.diff — `git -C {wt} diff` of exactly that one change against the clean HEAD (apply-able with `git apply`).
* demo.py — a small self-contained program (uses only numpy/scipy/stdlib + esutil imported from PYTHONPATH) that
  exits 0 on the unchanged library and exits non-zero (assertion failure) with the change applied. It must exercise
  the public API and check the property's statement, not an internal detail.
* meta.json — {{"property": "{pid}", "title": "<short name of the change>", "files": ["..."],
  "what_breaks": "<which clause of the statement, observable how>",
  "needs": "<what specific input/sequence/configuration is needed for it to manifest>",
  "why_tests_pass": "<why the 167 existing tests do not notice>"}}
Procedure per change: start from a clean tree (`git -C {wt} checkout -- .`), make the change, rebuild if C was touched,
run demo.py (must fail), run the test suite (must report 167 passed), save `git diff` as patch.diff, then
`git -C {wt} checkout -- .` (and rebuild if C was touched) and run demo.py again (must pass). Verify all of that
yourself before writing the files. Leave the worktree clean at the end.

Finish with a short report: for each change one line (title, file, what it needs to manifest) and confirmation that
you ran demo.py with/without the change and the test suite with it.""")
