#!/bin/bash
# tools/confirm_all.sh C01 C02 ...  -- confirm every /tmp/mw-<ID>-out/m*/ and run the owning check; log to /tmp/confirm/<ID>-m<k>.log
mkdir -p /tmp/confirm
for id in "$@"; do
  for d in /tmp/${PREFIX:-mw}-$id-out/m*/; do
    [ -f "$d/patch.diff" ] || continue
    k=$(basename "$d")
    [ -f /tmp/confirm/${PREFIX:-mw}-$id-$k.log ] && continue
    /verif/tools/confirm_seeded.sh "$d" "$id" > /tmp/confirm/${PREFIX:-mw}-$id-$k.log 2>&1
    echo "$id $k: $(grep -a "^RESULT" /tmp/confirm/${PREFIX:-mw}-$id-$k.log) | $(grep -a "^check " /tmp/confirm/${PREFIX:-mw}-$id-$k.log | tr '\n' ' ')"
  done
done
