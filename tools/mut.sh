#!/bin/bash
# tools/mut.sh <patch.diff | revert:<sha> | sed:<file>:<expr>> <ID> [<ID>...]  [-- extra check args]
# Applies a change to a scratch worktree of /repo HEAD (never to /repo), runs the quick tier of the
# given checks against it with VERIF_REPO, prints the verdict lines, removes the worktree.
set -u
CHANGE="$1"; shift
IDS=(); EXTRA=()
while [ $# -gt 0 ]; do if [ "$1" = "--" ]; then shift; EXTRA=("$@"); break; fi; IDS+=("$1"); shift; done
W=/tmp/mut-$$-$RANDOM
git -C /repo worktree add -q --detach "$W" HEAD || exit 2
cleanup() { git -C /repo worktree remove --force "$W" >/dev/null 2>&1; rm -rf "$W"; }
trap cleanup EXIT
case "$CHANGE" in
  revert:*) git -C "$W" revert --no-commit "${CHANGE#revert:}" >/dev/null || { echo "revert failed"; exit 2; } ;;
  sed:*) spec="${CHANGE#sed:}"; f="${spec%%:*}"; e="${spec#*:}"; sed -i "$e" "$W/$f"; git -C "$W" diff --stat | tail -1 ;;
  *) git -C "$W" apply "$CHANGE" || { echo "patch does not apply"; exit 2; } ;;
esac
if git -C "$W" diff --quiet HEAD; then echo "NO-CHANGE applied"; exit 2; fi
for id in "${IDS[@]}"; do
  t0=$(date +%s)
  out=$(cd /verif && VERIF_REPO="$W" VERIF_BUILD_DIR=/tmp/mut-build timeout -k 10 1800 ./check "$id" --tier quick --no-evidence "${EXTRA[@]}" 2>&1 | grep -av WARNING)
  rc=$?
  echo "$out" | grep -a "VIOLATION\|HARNESS\|subcheck=\|tier=" | cut -c1-300
  echo "== $id: $(echo "$out" | grep -ac VIOLATION) violation line(s), $(( $(date +%s) - t0 ))s"
done
