#!/bin/bash
# Runs the repository's pinned suite (BASELINE.json cmd) on /repo (or $1) after rebuilding
# the in-tree extensions, and prints the pass/fail summary.
R="${1:-/repo}"
cd "$R" || exit 2
/venv/bin/python setup.py -q build_ext --inplace -j16 >/tmp/repo_build.log 2>&1 || { tail -30 /tmp/repo_build.log; exit 2; }
PYTHONPATH="$R" /venv/bin/python -m pytest -ra -q -p no:cacheprovider --timeout=900 --continue-on-collection-errors -n 8 2>&1 | tail -8
