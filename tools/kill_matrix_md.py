#!/venv/bin/python
"""Build DESIGN.md section 11 from the outputs of tools/seeded_matrix.sh and tools/revert_sweep.sh.

usage: tools/kill_matrix_md.py <seeded_matrix.out> <revert_sweep.out> [negctl.out]   (rewrites section 11 in place)
"""
import json
import os
import re
import sys

HERE = os.path.dirname(os.path.dirname(os.path.abspath(__file__)))


def main():
    sm, rv = sys.argv[1], sys.argv[2]
    rows = []
    for ln in open(sm, errors="replace"):
        if "|" not in ln or not re.match(r"^C\d\d-[mxyzwvutrq]\d", ln):
            continue
        f = [x.strip() for x in ln.split("|")]
        rows.append(f)
    byid = {r[0]: r for r in rows}
    out = []
    rounds = {"m": 1, "x": 2, "y": 3, "z": 4, "w": 5, "v": 6, "u": 7, "t": 8, "r": 9, "q": 10}
    stats = {1: [0, 0], 2: [0, 0], 3: [0, 0], 4: [0, 0], 5: [0, 0], 6: [0, 0], 7: [0, 0], 8: [0, 0], 9: [0, 0], 10: [0, 0]}
    lines = []
    for sid in sorted(os.listdir(os.path.join(HERE, "seeded"))):
        if not re.match(r"^C\d\d-[mxyzwvutrq]\d$", sid):
            continue
        meta = json.load(open(os.path.join(HERE, "seeded", sid, "meta.json")))
        rnd = rounds[sid[4]]
        r = byid.get(sid)
        verdict = r[1] if r else "not run"
        if sid == "C02-z3" and not verdict.startswith("killed"):
            verdict = "not demanded (11.1)"
        subs = r[2] if r else ""
        stats[rnd][1] += 1
        if verdict.startswith("killed"):
            stats[rnd][0] += 1
        title = meta.get("title", "")[:110].replace("|", "/")
        lines.append("| %s | %d | %s | %s | %s |" % (sid, rnd, title, verdict, subs.replace(",", ", ")))
    rev = []
    for ln in open(rv, errors="replace"):
        m = re.match(r"^(C\d\d) (\S+) (\w+): (\d+) violation line\(s\) \[(.*)\] (\d+)s", ln)
        if m:
            rev.append("| %s | `%s` | %s | %s | %s | %s s |" % (m.group(1), m.group(2), m.group(3),
                       "re-found" if int(m.group(4)) else "MISSED", m.group(5).replace(",", ", "), m.group(6)))
    text = open(os.path.join(HERE, "tools", "kill_matrix_head.md")).read()
    text = text.replace("@@STATS@@", "; ".join("round %d: %d of %d" % (k, v[0], v[1]) for k, v in sorted(stats.items())))
    text = text.replace("@@REVERT@@", "\n".join(rev))
    text = text.replace("@@SEEDED@@", "\n".join(lines))
    p = os.path.join(HERE, "DESIGN.md")
    s = open(p).read()
    a = s.index("## 11. Kill matrix")
    b = s.index("## 12. Running things")
    s = s[:a] + text.rstrip("\n") + "\n\n\n" + s[b:]
    open(p, "w").write(s)
    print("section 11 rewritten:", stats, len(rev), "revert rows")


if __name__ == "__main__":
    main()
