#!/usr/bin/env python3
"""tools/store_round.py <prefix> <letter> <round-number> "<prompt note>"
Store every confirmed change of a sub-agent round under seeded/<ID>-<letter><k>/.
Reads /tmp/<prefix>-<ID>-out/m<k>/{patch.diff,demo.py,meta.json} and the log that tools/confirm_all.sh wrote to
/tmp/confirm/<prefix>-<ID>-m<k>.log; a change is stored only when that log ends in "RESULT confirmed"."""
import glob
import json
import os
import re
import shutil
import sys

HERE = os.path.dirname(os.path.dirname(os.path.abspath(__file__)))
prefix, letter, rnd, note = sys.argv[1], sys.argv[2], int(sys.argv[3]), sys.argv[4]
for d in sorted(glob.glob(f"/tmp/{prefix}-C??-out/m*/")):
    pid = re.search(r"-(C\d\d)-out", d).group(1)
    k = os.path.basename(d.rstrip("/"))[1:]
    log = f"/tmp/confirm/{prefix}-{pid}-m{k}.log"
    if not os.path.exists(log):
        print(pid, k, "no confirm log"); continue
    text = open(log, errors="replace").read()
    if "RESULT confirmed" not in text:
        print(pid, k, "NOT confirmed:", [l for l in text.splitlines() if l.startswith(("demo", "repo", "RESULT"))]); continue
    dst = os.path.join(HERE, "seeded", f"{pid}-{letter}{k}")
    os.makedirs(dst, exist_ok=True)
    shutil.copy(d + "patch.diff", dst); shutil.copy(d + "demo.py", dst)
    try:
        meta = json.load(open(d + "meta.json"))
    except Exception as e:  # noqa
        meta = {"property": pid, "title": "(meta.json of the author unreadable: %s)" % e}
    g = lambda pat: (re.search(pat, text) or [None, ""])[1].strip()
    meta.update(round=rnd, prompt_note=note, confirmed={
        "procedure": "tools/confirm_seeded.sh: scratch worktree of /repo HEAD; demo.py without the patch; git apply "
                     "patch.diff; rebuild extensions; demo.py with the patch; repository suite with the patch",
        "demo_without_patch_exit": g(r"demo without patch: exit (\d+)"),
        "demo_with_patch_exit": g(r"demo with patch:\s+exit (\d+)"),
        "repo_suite_with_patch": g(r"repo suite with patch: (.*)")},
        first_contact={"check": pid, "violation_lines": int(g(rf"check {pid}: (\d+) violation") or 0)})
    json.dump(meta, open(os.path.join(dst, "meta.json"), "w"), indent=1)
    print(pid, f"{letter}{k}", "stored; first contact violation lines:", meta["first_contact"]["violation_lines"])
