#!/bin/bash
# tools/seeded_matrix.sh [ids...]  -- apply every seeded/<ID>-m<k>/patch.diff to a scratch worktree of /repo HEAD and run the
# quick tier of the owning check (VERIF_REPO); one line per seeded change:  <id> | killed/SURVIVED | sub-checks | seconds
cd /verif || exit 2
sel=("$@"); [ ${#sel[@]} -eq 0 ] && sel=($(ls seeded | grep "^C"))
for s in "${sel[@]}"; do
  [ -d "/verif/seeded/$s" ] || continue
  pid=${s%%-*}
  also=$(/venv/bin/python -c "import json; print(' '.join(json.load(open('/verif/seeded/CROSS.json')).get('$s', [])))")
  W=/tmp/sm-$$-$s
  git -C /repo worktree add -q --detach "$W" HEAD || exit 2
  if ! git -C "$W" apply "/verif/seeded/$s/patch.diff" 2>/dev/null; then echo "$s | PATCH-DOES-NOT-APPLY"; git -C /repo worktree remove --force "$W"; continue; fi
  t0=$(date +%s)
  out=$(VERIF_REPO="$W" VERIF_BUILD_DIR=/tmp/sm-build VERIF_JOBS=${VERIF_JOBS:-16} VERIF_SEED=${VERIF_SEED:-1} timeout -k 10 1800 ./check "$pid" --tier quick --no-evidence 2>&1 | grep -av WARNING)
  n=$(echo "$out" | grep -ac '^VIOLATION')
  subs=$(echo "$out" | grep -a '^  subcheck=' | sed 's/^  subcheck=\([a-z_0-9A-Z]*\):.*/\1/' | sort -u | tr '\n' ',' )
  h=$(echo "$out" | grep -ac 'HARNESS-ERROR')
  title=$(/venv/bin/python -c "import json,sys; print(json.load(open('/verif/seeded/$s/meta.json'))['title'][:90])")
  by=$pid
  if [ $n -eq 0 ]; then
    for other in $also; do
      out=$(VERIF_REPO="$W" VERIF_BUILD_DIR=/tmp/sm-build VERIF_JOBS=${VERIF_JOBS:-16} VERIF_SEED=${VERIF_SEED:-1} timeout -k 10 1800 ./check "$other" --tier quick --no-evidence 2>&1 | grep -av WARNING)
      n=$(echo "$out" | grep -ac '^VIOLATION')
      subs=$(echo "$out" | grep -a '^  subcheck=' | sed 's/^  subcheck=\([a-z_0-9A-Z]*\):.*/\1/' | sort -u | tr '\n' ',' )
      [ $n -gt 0 ] && { by=$other; break; }
    done
  fi
  echo "$s | $([ $n -gt 0 ] && echo "killed by $by" || echo SURVIVED)$([ $h -gt 0 ] && echo ' +HARNESS-ERROR') | ${subs%,} | $(( $(date +%s) - t0 ))s | $title"
  git -C /repo worktree remove --force "$W" >/dev/null 2>&1; rm -rf "$W"
done
rm -rf /tmp/sm-build
