"""What a check module uses (see checks/README.md).

A check module ``checks/cNN_*.py`` defines

    PROPERTY    = "CNN"
    RULE        = "how cases are generated and what makes one non-trivial"   (evidence)
    ASSUMPTIONS = ["..."]                                                     (evidence)
    SUBCHECKS   = [Subcheck(...), ...]

Each Subcheck is an independent generated check that can print its own VIOLATION line.
"""
import os
import shutil
import tempfile


class Violation(Exception):
    """The code under test contradicts the property on this case."""


class HarnessError(Exception):
    """The harness itself is wrong (never a verdict)."""


class Raised(object):
    """Marker returned by sut(): the call raised `exc`."""

    def __init__(self, exc):
        self.exc = exc

    def __repr__(self):
        return "Raised(%s: %s)" % (type(self.exc).__name__, str(self.exc)[:200])


def sut(fn, *args, **kwargs):
    """Call into esutil; return its value or Raised(exc).  The oracle decides what an
    exception means (documented rejection or violation)."""
    try:
        return fn(*args, **kwargs)
    except Exception as exc:  # noqa: BLE001 - deliberate: the oracle classifies it
        return Raised(exc)


def must(fn, *args, **kwargs):
    """Call into esutil on input that is valid by construction: an exception is a
    violation."""
    try:
        return fn(*args, **kwargs)
    except Exception as exc:  # noqa: BLE001
        name = getattr(fn, "__qualname__", getattr(fn, "__name__", repr(fn)))
        raise Violation("%s raised %s: %s on valid input" % (name, type(exc).__name__,
                                                           str(exc)[:300])) from exc


def require(cond, msg, *fmt):
    if not cond:
        raise Violation(msg % fmt if fmt else msg)


class Ctx(object):
    """Per-case context handed to check functions."""

    def __init__(self, tier, open_findings, workdir):
        self.tier = tier
        self._open = open_findings          # set of keys of open known findings
        self._workdir = workdir
        self._tmp = None
        self.notes = {}                     # free-form counters merged into evidence

    def finding_open(self, key):
        return key in self._open

    def tmpdir(self):
        """A scratch directory private to this case; removed after the case."""
        if self._tmp is None:
            self._tmp = tempfile.mkdtemp(prefix="case-", dir=self._workdir)
        return self._tmp

    def tmpfile(self, name):
        return os.path.join(self.tmpdir(), name)

    def count(self, key, n=1):
        self.notes[key] = self.notes.get(key, 0) + n

    def cleanup(self):
        if self._tmp is not None:
            shutil.rmtree(self._tmp, ignore_errors=True)
            self._tmp = None


class Subcheck(object):
    """One generated check.

    name       identifier, unique within the property
    strategy   zero-argument callable returning a Hypothesis strategy of *JSON-able* cases
               (use vp.case.enc for arrays/bytes/tuples) -- or None for replay/exhaustive only
    check      check(case, ctx): raises Violation; returns None
    classify   classify(case) -> iterable of labels; a label starting with "nt:" marks the
               case non-trivial by the property's stated rule
    quick / thorough   number of generated cases per tier (spread over shards)
    exhaustive optional callable(tier) -> iterable of cases enumerated completely
               (in addition to the generated ones); exhaustive_tiers says where
    skip       dict finding-key -> predicate(case)->bool: while that known finding is
               *open* the matching cases are excluded (and counted)
    journal    write each case to the crash journal before running it (C extensions)
    shards     how many seed shards to split the budget into per tier
    """

    def __init__(self, name, strategy, check, classify=None, quick=500, thorough=20000,
                 exhaustive=None, exhaustive_tiers=("thorough",), skip=None, journal=True,
                 shards=None, doc="", max_shrink_s=None):
        self.name = name
        self.strategy = strategy
        self.check = check
        self.classify = classify or (lambda case: ())
        self.quick = quick
        self.thorough = thorough
        self.exhaustive = exhaustive
        self.exhaustive_tiers = tuple(exhaustive_tiers)
        self.skip = dict(skip or {})
        self.journal = journal
        self.shards = shards
        self.doc = doc
        self.max_shrink_s = max_shrink_s

    def budget(self, tier):
        return self.quick if tier == "quick" else self.thorough
