"""Vectorised sky families expanded from a Hypothesis-drawn integer seed (C08/C09/C19).

The case carries only the integer; the body is produced with numpy PCG64 so that the case stays a
pure value (checks/README.md).  Constructions use the longdouble destination formula of
vp/oracle/sphere.py and are then rounded to float64.  Nothing here calls esutil.
"""
import numpy as np

from vp.oracle import sphere

PAIR_FAMILIES = ["uniform", "tiny", "small", "near-antipodal", "antipodal", "equal", "polar", "seam",
                 "same-lon", "same-lat", "mid-large"]


def _uniform(rng, n):
    lon = 360.0 * rng.random(n)
    lat = np.degrees(np.arcsin(np.clip(2.0 * rng.random(n) - 1.0, -1.0, 1.0)))
    return lon, lat


def _clamp(lon, lat):
    lon = np.asarray(lon, dtype="f8")
    lat = np.clip(np.asarray(lat, dtype="f8"), -90.0, 90.0)
    return lon, lat


def points_from_seed(seed, n, poles=()):
    """n float64 points: uniform, near/at the coordinate poles, at the 0/360 seam, and near/at
    each of `poles` ([(lon, lat), ...] -- e.g. the poles of a target system expressed in the
    source system).  Returns lon, lat, fam (int codes: 0 uniform, 1 coordinate pole, 2 seam,
    3 special pole)."""
    rng = np.random.Generator(np.random.PCG64(int(seed)))
    lon, lat = _uniform(rng, n)
    fam = rng.integers(0, 4 if len(poles) else 3, n)
    fam[rng.random(n) < 0.35] = 0
    # coordinate poles
    d = 10.0 ** rng.uniform(-10.0, 0.0, n)
    d[rng.random(n) < 0.1] = 0.0
    sgn = np.where(rng.random(n) < 0.5, 1.0, -1.0)
    w = fam == 1
    lat[w] = (sgn * (90.0 - d))[w]
    # seam
    e = 10.0 ** rng.uniform(-13.0, 0.0, n)
    pick = rng.integers(0, 4, n)
    seam = np.choose(pick, [e, 360.0 - e, np.zeros(n), np.full(n, 360.0)])
    w = fam == 2
    lon[w] = seam[w]
    # neighbourhood of the special poles
    if len(poles):
        w = np.nonzero(fam == 3)[0]
        if w.size:
            pa = np.asarray(poles, dtype="f8").reshape(-1, 2)
            k = rng.integers(0, pa.shape[0], w.size)
            dist = 10.0 ** rng.uniform(-10.0, -1.0, w.size)
            dist[rng.random(w.size) < 0.15] = 0.0
            bear = rng.uniform(0.0, 360.0, w.size)
            lo, la = sphere.destination(pa[k, 0], pa[k, 1], bear, dist)
            lon[w], lat[w] = _clamp(lo, la)
    lon, lat = _clamp(lon, lat)
    return lon, lat, fam


def pairs_from_seed(seed, n):
    """n float64 pairs from the adversarial families of C08.  Returns ra1, dec1, ra2, dec2, fam
    (index into PAIR_FAMILIES)."""
    rng = np.random.Generator(np.random.PCG64(int(seed)))
    lon1, lat1, _ = points_from_seed(int(rng.integers(0, 2 ** 62)), n)
    fam = rng.integers(0, len(PAIR_FAMILIES), n)
    lon2, lat2 = _uniform(rng, n)
    bear = rng.uniform(0.0, 360.0, n)

    def fi(name):
        return PAIR_FAMILIES.index(name)

    dist = np.zeros(n)
    w = fam == fi("tiny")
    dist[w] = 10.0 ** rng.uniform(-12.0, -3.0, n)[w]
    w = fam == fi("small")
    dist[w] = 10.0 ** rng.uniform(-3.0, 1.0, n)[w]
    w = fam == fi("near-antipodal")
    dist[w] = 180.0 - 10.0 ** rng.uniform(-9.0, 0.0, n)[w]
    w = fam == fi("mid-large")         # both sides of the 3.99 chord threshold (174.27 deg)
    dist[w] = rng.uniform(170.0, 179.0, n)[w]
    constructed = np.isin(fam, [fi("tiny"), fi("small"), fi("near-antipodal"), fi("mid-large")])
    if constructed.any():
        lo, la = sphere.destination(lon1[constructed], lat1[constructed], bear[constructed],
                                    dist[constructed])
        lon2[constructed], lat2[constructed] = _clamp(lo, la)
    w = fam == fi("antipodal")
    lon2[w] = np.where(lon1[w] < 180.0, lon1[w] + 180.0, lon1[w] - 180.0)
    lat2[w] = -lat1[w]
    w = fam == fi("equal")
    lon2[w], lat2[w] = lon1[w], lat1[w]
    w = fam == fi("polar")
    sgn = np.where(lat1 >= 0, 1.0, -1.0)
    d1 = 10.0 ** rng.uniform(-9.0, 0.0, n)
    d2 = 10.0 ** rng.uniform(-9.0, 0.0, n)
    d2[rng.random(n) < 0.2] = 0.0
    lat1[w] = (sgn * (90.0 - d1))[w]
    lat2[w] = (sgn * (90.0 - d2))[w]
    w = fam == fi("seam")
    e1 = 10.0 ** rng.uniform(-12.0, 0.5, n)
    e2 = 10.0 ** rng.uniform(-12.0, 0.5, n)
    e2[rng.random(n) < 0.2] = 0.0
    lon1[w] = (360.0 - e1)[w]
    lon2[w] = e2[w]
    lat2[w] = (lat1 + rng.choice([0.0, 1e-9, 1e-3, 0.3], n))[w]
    w = fam == fi("same-lon")
    lon2[w] = lon1[w]
    w = fam == fi("same-lat")
    lat2[w] = lat1[w]
    lon1, lat1 = _clamp(lon1, lat1)
    lon2, lat2 = _clamp(lon2, lat2)
    return lon1, lat1, lon2, lat2, fam
