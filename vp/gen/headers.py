"""User-header strategies for the self-describing record files (DESIGN.md section 3).

Values are finite Python literals: ints of any size, finite floats, str (quotes, backslashes,
newlines, the words END / SIZE, non-ASCII), bytes, None, bools, nested list/tuple/dict.
The strategy yields the *encoded* (JSON-able, vp.case.enc) form; use vp.case.dec to get the
Python object.
"""
from hypothesis import strategies as st

from vp.case import enc

RESERVED = {"_size", "_nrows", "_delim", "_shape", "_has_fields", "_dtype", "_version"}

NASTY_TEXT = ["END", "END\n", "\nEND\n", "THE END", "WEEKEND", "SIZE = 3", "SIZE =                   10",
              "it's", 'say "hi"', "back\\slash", "tab\there", "line1\nline2", "\r\n", "", " ", "'''", '"""',
              "{'a': 1}", "[1, 2", "naïve café", "π≈3", "日本", "x" * 120, "word " * 30, "#comment", "%s %d",
              "array([1])", "\\n", "\x00", "\x7f", "_DTYPE"]

text = st.one_of(st.sampled_from(NASTY_TEXT), st.text(max_size=20),
                 st.text(alphabet="END \n'\"\\", max_size=12))

keys = st.one_of(st.sampled_from(["a", "date", "END", "WEEKEND", "SIZE", "size", "my key", "it's", "x\ny",
                                  "Ünï", "_private", "DTYPE", "__t__", "delim", "nrows", ""]),
                 st.text(min_size=0, max_size=12)).filter(lambda k: k.lower() not in RESERVED)

scalars = st.one_of(
    st.integers(-10, 10), st.integers(), st.integers(-2 ** 70, 2 ** 70),
    st.floats(allow_nan=False, allow_infinity=False),
    st.sampled_from([0.1, -0.0, 1e300, 5e-324, 1.0, 1 / 3.0]),
    text, st.binary(max_size=12), st.sampled_from([b"END", b"\x00\xff", b"it's"]),
    st.none(), st.booleans())


def _extend(children):
    return st.one_of(
        st.lists(children, max_size=4),
        st.lists(children, max_size=4).map(tuple),
        st.dictionaries(keys, children, max_size=4))


values = st.recursive(scalars, _extend, max_leaves=10)


def _recase(draw_bits, name):
    return "".join(c.upper() if (draw_bits >> i) & 1 else c for i, c in enumerate(name))


# reserved underscore-prefixed names in any spelling of upper/lower case: they need not survive (the
# statement excludes them) but a user header carrying one must not disturb the round trip of the table
reserved_keys = st.tuples(st.sampled_from(sorted(RESERVED)), st.integers(0, 2 ** 12 - 1)).map(
    lambda t: _recase(t[1], t[0]))
reserved_values = st.one_of(st.sampled_from([",", ":", " ", "\t", None, 0, 1, 7, 99, -1, "junk", (2,), [("q", "<f4")], True,
                                             False, "1.0"]), scalars)


# ordinary user keys that merely contain a reserved name (col_delim, OUT_DTYPE, pix_size, _sizes ...): they are
# not reserved, must survive with their value, and must not be mistaken for the reserved entry
near_reserved_keys = st.tuples(reserved_keys, st.sampled_from(["col", "OUT", "pix", "x", "A", "0", "_", "my"]),
                               st.sampled_from(["pre", "pre", "post", "both"])).map(
    lambda t: {"pre": t[1] + t[0], "post": t[0] + t[1].lower(), "both": t[1] + t[0] + "s"}[t[2]]).filter(
    lambda k: k.lower() not in RESERVED)


# one header in forty is long (more than 64 KiB of header text): a long string, a long list of numbers or names
_BIG = {"str70k": lambda: "x" * 70001, "text": lambda: "word " * 16000, "ints": lambda: list(range(20000)),
        "names": lambda: ["field_%05d" % i for i in range(6000)], "bytes": lambda: b"\x01\xfe" * 20000}


@st.composite
def _header_dicts(draw):
    d = draw(st.dictionaries(keys, values, min_size=0, max_size=8))
    if draw(st.integers(0, 39)) == 0:
        d[draw(st.sampled_from(["big", "history", "COMMENT"]))] = _BIG[draw(st.sampled_from(sorted(_BIG)))]()
    if draw(st.integers(0, 5)) == 0:
        for _ in range(draw(st.integers(1, 2))):
            d[draw(reserved_keys)] = draw(reserved_values)
    if draw(st.integers(0, 4)) == 0:
        for _ in range(draw(st.integers(1, 2))):
            d[draw(near_reserved_keys)] = draw(reserved_values)
    return enc(d)


def headers():
    """strategy of encoded header dicts (or None for 'no header')"""
    return st.one_of(st.none(), _header_dicts())


def is_reserved(key):
    return isinstance(key, str) and key.lower() in RESERVED


def equal_typed(a, b):
    """Recursive equality with equal types; floats compared by repr (-0.0 != 0.0)."""
    if type(a) is not type(b):
        return False
    if isinstance(a, float):
        return repr(a) == repr(b)
    if isinstance(a, (list, tuple)):
        return len(a) == len(b) and all(equal_typed(x, y) for x, y in zip(a, b))
    if isinstance(a, dict):
        return set(a) == set(b) and all(equal_typed(a[k], b[k]) for k in a)
    return a == b


def labels(hdr):
    """Structural labels of a decoded header for classify functions."""
    labs = set()
    if hdr is None:
        labs.add("hdr:none")
        return labs
    if not hdr:
        labs.add("hdr:empty")
    if any(is_reserved(k) for k in hdr):
        labs.add("hdr:reserved-name-given")
    if any(isinstance(k, str) and not is_reserved(k) and any(r in k.lower() for r in RESERVED) for k in hdr):
        labs.add("hdr:key-contains-reserved-name")

    if any((isinstance(v, (str, bytes, list)) and len(v) >= 6000) for v in hdr.values()):
        labs.add("hdr:longer-than-64KiB")

    def walk(v, depth):
        if isinstance(v, str):
            if "END" in v.upper():
                labs.add("hdr:END")
            if "SIZE" in v.upper():
                labs.add("hdr:SIZE")
            if "\n" in v or "\r" in v:
                labs.add("hdr:newline")
            if "'" in v or '"' in v or "\\" in v:
                labs.add("hdr:quote")
            if any(ord(c) > 127 for c in v):
                labs.add("hdr:non-ascii")
            if len(v) > 70:
                labs.add("hdr:long-string")
        elif isinstance(v, bytes):
            labs.add("hdr:bytes")
        elif isinstance(v, (list, tuple)):
            labs.add("hdr:nested")
            for x in v:
                walk(x, depth + 1)
        elif isinstance(v, dict):
            if depth > 0:
                labs.add("hdr:nested")
            for k, x in v.items():
                walk(k, depth + 1)
                walk(x, depth + 1)
        elif isinstance(v, int) and not isinstance(v, bool) and abs(v) > 2 ** 63:
            labs.add("hdr:bigint")
    walk(hdr, 0)
    return labs
