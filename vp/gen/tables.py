"""Structured-table strategies for the record-file properties (DESIGN.md section 3).

A *table case* is JSON:

    {"descr": [[name, typestr] | [name, typestr, [dims]] ...],   # packed dtype, numpy descr
     "nrows": n,
     "fill": "zero" | "rand",        # body: zeros, or expanded from `seed` with numpy PCG64
     "seed": int,
     "cells": [[row, field, elem, special], ...]}   # overlays: special values by name / literal

`build(tcase)` turns it into the ndarray handed to esutil.  kind="binary": random fill is raw
random bytes (NaN payloads, denormals, embedded NULs, integer extremes all occur; bool bytes
are masked to {0,1}).  kind="text": random fill is typed (full-range ints, floats over 600
decades with full mantissas, printable-ASCII strings with NUL padding only) because the text
property is stated for values, not bit patterns.
"""
import numpy as np
from hypothesis import strategies as st

from vp.case import descr_from_json

NAMES = ["a", "b", "x", "y", "ra", "dec", "id", "flux", "END", "WEEKEND", "xENDx", "SIZE", "_x",
         "Mag_1", "f0", "END_", "endx", "size", "NROWS", "name", "Z9", "lambda_", "END2", "TheEND",
         "_SIZE_", "DELIM", "e", "nan", "inf", "array"]

INTS = ["i1", "u1", "i2", "u2", "i4", "u4", "i8", "u8"]
FLOATS = ["f4", "f8"]
BIN_ONLY = ["b1", "c8", "c16"]
TEXT_DELIMS = [",", ":", "\t", " ", ";", "|"]

# printable ASCII incl. space, plus tab; no newline characters
TEXT_CHARS = [chr(c) for c in range(0x20, 0x7f)] + ["\t"]

F8_SPECIAL = ["nan", "-nan", "inf", "-inf", "0", "-0", "denorm", "tiny", "d17a", "d17b", "third",
              "tenth", "big", "-big", "one", "e22", "half_ulp", "max_text"]
F4_SPECIAL = ["nan", "-nan", "inf", "-inf", "0", "-0", "denorm", "tiny", "third", "tenth", "big",
              "-big", "one", "f7a"]
INT_SPECIAL = ["min", "max", "0", "-1", "1", "min+1", "max-1"]


def _float_special(name, base):
    t = np.dtype(base).type
    fi = np.finfo(base)
    table = {
        "nan": float("nan"), "inf": float("inf"), "-inf": float("-inf"), "0": 0.0, "-0": -0.0,
        "denorm": float(fi.smallest_subnormal), "tiny": float(fi.tiny), "third": 1.0 / 3.0, "tenth": 0.1,
        "one": 1.0, "e22": 1e22, "d17a": 0.30000000000000004, "d17b": 9007199254740993.0,
        "half_ulp": 1.0000000000000002, "f7a": 16777217.0,
        "big": 1.7976931348623e308 if base == "f8" else 3.4028e38,
        "-big": -1.7976931348623e308 if base == "f8" else -3.4028e38,
        "max_text": 1.797693134862315e308,
    }
    if name == "-nan":
        v = np.array([np.nan], dtype=base)
        return -v[0]
    return t(table[name])


def _int_special(name, base):
    ii = np.iinfo(base)
    v = {"min": ii.min, "max": ii.max, "0": 0, "-1": -1 if ii.min < 0 else ii.max, "1": 1,
         "min+1": ii.min + 1, "max-1": ii.max - 1}[name]
    return np.dtype(base).type(v)


def base_code(typestr):
    """'<i4' -> 'i4', '|S5' -> 'S5'"""
    return typestr[1:] if typestr[0] in "<>|=" else typestr


def field_specials(code, kind):
    if code in INTS:
        return INT_SPECIAL
    if code == "f8":
        return F8_SPECIAL if kind == "text" else F8_SPECIAL + ["max", "nan_payload"]
    if code == "f4":
        return F4_SPECIAL if kind == "text" else F4_SPECIAL + ["max", "nan_payload"]
    if code == "b1":
        return ["true", "false"]
    if code in ("c8", "c16"):
        return ["cnan", "cinf", "c0", "c-0"]
    return None  # strings: literal


@st.composite
def _string_literal(draw, width, kind):
    if kind == "binary":
        b = draw(st.one_of(
            st.binary(min_size=0, max_size=min(width, 64)),
            st.lists(st.sampled_from([0, 0, 32, 65, 10, 255, 69, 78, 68]), min_size=0, max_size=min(width, 64)).map(bytes)))
        return b.hex()
    n = draw(st.integers(0, min(width, 64)))          # wide fields: the literal fills the head of the cell only
    chars = draw(st.lists(st.one_of(st.sampled_from(TEXT_CHARS), st.sampled_from(list(" \t,:;|aE0-."))),
                          min_size=n, max_size=n))
    return "".join(chars).encode("ascii").hex()


WIDE_WIDTHS = [255, 256, 1024, 4096, 8192, 32768, 65536, 70001]
BYTE_TARGETS = [4096, 8192, 65536, 2 ** 20, 2 ** 21, 3 * 2 ** 20, 2 ** 22, 2 ** 23]


@st.composite
def tables(draw, kind="binary", max_fields=8, max_rows=40, big_rows=3000, allow_mixed_order=False,
           min_rows=1, types=None, sizes=False):
    nf = draw(st.integers(1, max_fields))
    names = draw(st.lists(st.sampled_from(NAMES), min_size=nf, max_size=nf, unique=True))
    order = draw(st.sampled_from(["<", ">"]))
    mixed = allow_mixed_order and draw(st.integers(0, 4)) == 4
    codes = types or (INTS + FLOATS + (BIN_ONLY if kind == "binary" else []))
    descr = []
    for nm in names:
        if draw(st.integers(0, 3)) == 3:
            code = "S%d" % draw(st.integers(1, 12))
        else:
            code = draw(st.sampled_from(codes))
        o = draw(st.sampled_from(["<", ">"])) if mixed else order
        if code[0] == "S" or code in ("i1", "u1", "b1"):
            o = "|"
        sh = draw(st.sampled_from([None, None, None, None, None, 1, 1, 2, 3]))
        ent = [nm, o + code]
        if sh is not None:
            ent.append(draw(st.lists(st.integers(1, 3), min_size=sh, max_size=sh)))
        descr.append(ent)
    wide = False
    if sizes and draw(st.integers(0, 29)) == 0:
        # one wide field: a row longer than the usual stdio / line buffers (255 ... 70 kB)
        wide = True
        f = draw(st.integers(0, nf - 1))
        if draw(st.booleans()):
            descr[f] = [names[f], "|S%d" % (draw(st.sampled_from(WIDE_WIDTHS)) + draw(st.integers(-1, 1)))]
        else:
            descr[f] = [names[f], order + draw(st.sampled_from(["f8", "i4", "f4"])),
                        draw(st.sampled_from([[1100], [4100], [64, 64], [9000]]))]
    itemsize = np.dtype(descr_from_json(descr)).itemsize
    if wide:
        nrows = draw(st.integers(min_rows, max(min_rows, min(max_rows, 6))))
        fill = "rand"
    elif sizes and kind == "binary" and big_rows and draw(st.integers(0, 39)) == 0:
        # total size next to a power-of-two boundary a buffered writer/reader might split at
        target = draw(st.sampled_from(BYTE_TARGETS))
        nrows = max(min_rows, target // itemsize + draw(st.integers(-1, 2)))
        fill = "rand"
    elif big_rows and draw(st.integers(0, 19)) == 19:
        nrows = draw(st.integers(max_rows + 1, big_rows))
        fill = "rand"
    else:
        nrows = draw(st.integers(min_rows, max_rows))
        fill = draw(st.sampled_from(["zero", "rand", "rand"]))
    seed = draw(st.integers(0, 2 ** 32 - 1)) if fill == "rand" else 0
    ncell = draw(st.integers(0, 6))
    cells = []
    for _ in range(ncell):
        f = draw(st.integers(0, nf - 1))
        ent = descr[f]
        nel = int(np.prod(ent[2])) if len(ent) == 3 else 1
        code = base_code(ent[1])
        sp = field_specials(code, kind)
        if sp is None:
            val = {"s": draw(_string_literal(int(code[1:]), kind))}
        else:
            val = draw(st.sampled_from(sp))
        cells.append([draw(st.integers(0, nrows - 1)), f, draw(st.integers(0, nel - 1)), val])
    if kind == "text" and all(base_code(e[1])[0] == "S" for e in descr) and not wide and draw(st.integers(0, 2)) == 0:
        # a row made of blanks only (every string cell spaces or tabs): it is still a row
        row = draw(st.integers(0, nrows - 1))
        ch = draw(st.sampled_from(["20", "20", "09"]))
        for f, ent in enumerate(descr):
            nel = int(np.prod(ent[2])) if len(ent) == 3 else 1
            w = int(base_code(ent[1])[1:])
            for el in range(nel):
                cells.append([row, f, el, {"s": ch * draw(st.sampled_from([w, w, 1]))}])
    return {"descr": descr, "nrows": nrows, "fill": fill, "seed": seed, "cells": cells, "kind": kind}


def dtype_of(tcase):
    return np.dtype(descr_from_json(tcase["descr"]))


def _rand_text_field(rng, n, code, order):
    if code in INTS:
        ii = np.iinfo(code)
        a = rng.integers(ii.min, ii.max, size=n, endpoint=True, dtype=code)
        small = rng.random(n) < 0.3
        a[small] = (a[small] % 21).astype(code)
        return a
    if code in FLOATS:
        span = 300.0 if code == "f8" else 37.0
        mant = rng.uniform(1.0, 10.0, n)
        ex = rng.uniform(-span, span, n)
        sign = np.where(rng.random(n) < 0.5, -1.0, 1.0)
        v = sign * mant * 10.0 ** ex
        simple = rng.random(n) < 0.3
        v[simple] = np.round(rng.uniform(-1000, 1000, int(simple.sum())), 2)
        with np.errstate(over="ignore"):
            v = v.astype(code)
        fi = np.finfo(code)
        v = np.clip(v, -fi.max / 4, fi.max / 4)
        return v
    w = int(code[1:])
    chars = np.array([ord(c) for c in TEXT_CHARS], dtype="u1")
    body = chars[rng.integers(0, len(chars), size=(n, w))]
    # make alphanumerics dominant in half of the cells, keep NUL padding at the tail only
    plain = rng.random(n) < 0.5
    alnum = np.frombuffer(b"abcdefXYZ0123456789_", dtype="u1")
    body[plain] = alnum[rng.integers(0, alnum.size, size=(int(plain.sum()), w))]
    ln = rng.integers(0, w + 1, size=n)
    full = rng.random(n) < 0.4
    ln[full] = w
    mask = np.arange(w)[None, :] >= ln[:, None]
    body[mask] = 0
    return np.ascontiguousarray(body).view("S%d" % w).reshape(n)


def build(tcase):
    """ndarray for a table case."""
    dt = dtype_of(tcase)
    n = int(tcase["nrows"])
    kind = tcase.get("kind", "binary")
    if tcase["fill"] == "zero":
        a = np.zeros(n, dtype=dt)
    else:
        rng = np.random.Generator(np.random.PCG64(int(tcase["seed"])))
        if kind == "binary":
            raw = rng.bytes(n * dt.itemsize)
            a = np.frombuffer(raw, dtype=dt).copy()
            for ent in tcase["descr"]:
                if base_code(ent[1]) == "b1":
                    v = a[ent[0]].view("u1")
                    v &= 1
        else:
            a = np.zeros(n, dtype=dt)
            for ent in tcase["descr"]:
                code = base_code(ent[1])
                nel = int(np.prod(ent[2])) if len(ent) == 3 else 1
                vals = _rand_text_field(rng, n * nel, code, ent[1][0])
                a[ent[0]] = vals.reshape(a[ent[0]].shape)
    for row, f, el, val in tcase["cells"]:
        ent = tcase["descr"][f]
        code = base_code(ent[1])
        col = a[ent[0]]
        tgt = col.reshape(n, -1)
        if isinstance(val, dict):
            w = int(code[1:])
            b = bytes.fromhex(val["s"])[:w]
            tgt[row, el] = b
        elif code in INTS:
            tgt[row, el] = _int_special(val, code)
        elif code in FLOATS:
            if val == "max":
                tgt[row, el] = np.finfo(code).max
            elif val == "nan_payload":
                bits = {"f8": ("<u8", 0x7ff4000000000123), "f4": ("<u4", 0x7fa00123)}[code]
                tgt[row, el] = np.array([bits[1]], dtype=bits[0]).view("<" + code)[0]
            else:
                with np.errstate(over="ignore"):
                    tgt[row, el] = _float_special(val, code)
        elif code == "b1":
            tgt[row, el] = (val == "true")
        else:
            tgt[row, el] = {"cnan": complex(float("nan"), 1.0), "cinf": complex(float("inf"), float("-inf")),
                            "c0": 0j, "c-0": complex(-0.0, -0.0)}[val]
    return a


def describe(tcase):
    """Structural labels used by classify functions."""
    labs = set()
    for ent in tcase["descr"]:
        code = base_code(ent[1])
        if ent[1][0] == ">":
            labs.add("big-endian")
        if ent[1][0] == "<":
            labs.add("little-endian")
        if len(ent) == 3:
            labs.add("subarray%d" % len(ent[2]))
        if code[0] == "S":
            labs.add("string")
        if code in FLOATS:
            labs.add("float")
        if code in BIN_ONLY:
            labs.add("bool/complex")
        if "END" in ent[0].upper() or "SIZE" in ent[0].upper():
            labs.add("name-END/SIZE")
    if "big-endian" in labs and "little-endian" in labs:
        labs.add("mixed-order")
    n = tcase["nrows"]
    labs.add("rows:1" if n == 1 else "rows:2-40" if n <= 40 else "rows:>40")
    isz = dtype_of(tcase).itemsize
    if isz >= 255:
        labs.add("row-bytes:%s" % ("<4k" if isz < 4096 else "<32k" if isz < 32768 else ">=32k"))
    if n * isz >= 2 ** 20:
        labs.add("table-bytes:>=1MiB")
    if len(tcase["descr"]) >= 2:
        labs.add("multi-field")
    for row, f, el, val in tcase["cells"]:
        if isinstance(val, dict):
            b = bytes.fromhex(val["s"])
            if b"\0" in b.rstrip(b"\0"):
                labs.add("str-embedded-NUL")
            if b[:1] in (b" ", b"\t"):
                labs.add("str-leading-blank")
            if b.rstrip(b"\0")[-1:] in (b" ", b"\t"):
                labs.add("str-trailing-blank")
            if any(c in b for c in b",:;|"):
                labs.add("str-delim-char")
            if len(b) == 0:
                labs.add("str-empty")
        elif val in ("nan", "-nan", "inf", "-inf", "nan_payload", "cnan", "cinf"):
            labs.add("nonfinite")
        elif val in ("min", "max", "min+1", "max-1"):
            labs.add("extreme")
        elif val in ("d17a", "d17b", "third", "tenth", "half_ulp", "f7a", "denorm", "tiny", "max_text"):
            labs.add("digits")
        elif val in ("-0", "c-0"):
            labs.add("negzero")
    return labs


def nbytes(tcase):
    return dtype_of(tcase).itemsize * tcase["nrows"]
