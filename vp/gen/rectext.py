"""Bodies for *text* record tables used by C02/C03 (helpers on top of vp.gen.tables).

C04 owns the text format's treatment of strings that start with white space / contain the
delimiter and of floats that need 16/7 digits.  C02 and C03 are about selections and histories,
so their text tables stay away from both:

* `alnum_strings(a)`   every non-NUL byte of every bytes field is mapped to a letter or digit
                       (lengths and the trailing NUL padding are kept);
* `build_exact(tcase)` a body that survives the text form *exactly*: full-range integers,
                       letter/digit strings, floats m/2**k whose decimal expansion has at most
                       7 (f4) / 15 (f8) significant digits, so "%.7g" / "%.16g" print them in full.
"""
import numpy as np

from vp.gen import tables as T

ALNUM = np.frombuffer(b"abcdefghijklmnopqrstuvwxyzABCDEFGHIJKLMNOPQRSTUVWXYZ0123456789", dtype="u1")
_MAP = np.zeros(256, dtype="u1")
_MAP[1:] = ALNUM[np.arange(1, 256) % ALNUM.size]


def alnum_strings(a):
    """Copy of structured array `a` with every bytes field restricted to letters/digits."""
    out = a.copy()
    for name in out.dtype.names:
        col = out[name]
        if col.dtype.kind != "S":
            continue
        w = col.dtype.itemsize
        raw = np.ascontiguousarray(col).view("u1").reshape(-1, w)
        mapped = _MAP[raw]
        # NUL only as trailing padding: anything after the first NUL becomes NUL
        seen = np.cumsum(mapped == 0, axis=1) > 0
        mapped[seen] = 0
        out[name] = mapped.view("S%d" % w).reshape(col.shape)
    return out


def _exact_field(rng, n, code):
    if code in T.INTS:
        ii = np.iinfo(code)
        a = rng.integers(ii.min, ii.max, size=n, endpoint=True, dtype=code)
        small = rng.random(n) < 0.3
        a[small] = (a[small] % 21).astype(code)
        edge = rng.random(n) < 0.1
        lohi = np.array([ii.min, ii.max], dtype=code)
        a[edge] = lohi[rng.integers(0, 2, size=int(edge.sum()))]
        return a
    if code == "f8":
        # |m| < 1e6, k <= 8: m*5**k has at most 6 + 6 = 12 digits
        m = rng.integers(-999999, 999999, size=n, endpoint=True).astype("f8")
        k = rng.integers(0, 8, size=n, endpoint=True)
        v = m / 2.0 ** k
        neg0 = rng.random(n) < 0.03
        v[neg0] = -0.0
        return v
    if code == "f4":
        # |m| <= 9999, k <= 3: m*5**k has at most 4 + 3 = 7 digits; exact in f4 (24-bit mantissa)
        m = rng.integers(-9999, 9999, size=n, endpoint=True).astype("f8")
        k = rng.integers(0, 3, size=n, endpoint=True)
        return (m / 2.0 ** k).astype("f4")
    w = int(code[1:])
    body = ALNUM[rng.integers(0, ALNUM.size, size=(n, w))]
    ln = rng.integers(0, w + 1, size=n)
    full = rng.random(n) < 0.5
    ln[full] = w
    body[np.arange(w)[None, :] >= ln[:, None]] = 0
    return np.ascontiguousarray(body).view("S%d" % w).reshape(n)


def build_exact(tcase, seed=None, nrows=None):
    """ndarray for table case `tcase` (descr, nrows, seed) whose text form is exact.
    `seed`/`nrows` override the case's (C03 builds several chunks of one dtype)."""
    dt = T.dtype_of(tcase)
    n = int(tcase["nrows"] if nrows is None else nrows)
    rng = np.random.Generator(np.random.PCG64(int(tcase["seed"] if seed is None else seed)))
    a = np.zeros(n, dtype=dt)
    for ent in tcase["descr"]:
        code = T.base_code(ent[1])
        nel = int(np.prod(ent[2])) if len(ent) == 3 else 1
        vals = _exact_field(rng, n * nel, code)
        a[ent[0]] = vals.reshape(a[ent[0]].shape)
    return a


def build_binary(tcase, seed=None, nrows=None):
    """Raw-random-bytes body (as vp.gen.tables.build for kind='binary', without cell overlays)
    with overridable seed / nrows."""
    t = dict(tcase)
    t["cells"] = []
    t["fill"] = "rand"
    t["kind"] = "binary"
    if seed is not None:
        t["seed"] = int(seed)
    if nrows is not None:
        t["nrows"] = int(nrows)
    return T.build(t)


def selftest():
    """The exact bodies really are exact under %.7g / %.16g (harness self-check)."""
    rng = np.random.Generator(np.random.PCG64(12345))
    v8 = _exact_field(rng, 4000, "f8")
    v4 = _exact_field(rng, 4000, "f4")
    for x in v8.tolist():
        if float("%.16g" % x) != x or len(("%.16g" % abs(x)).replace(".", "").lstrip("0")) > 15:
            raise AssertionError("f8 value %r is not exact in 15 digits" % x)
    for x in v4.tolist():
        if np.float32(float("%.7g" % x)) != np.float32(x) or float("%.7g" % x) != x:
            raise AssertionError("f4 value %r is not exact in 7 digits" % x)
    a = np.zeros(3, dtype=[("s", "S4"), ("i", "i4")])
    a["s"] = [b" a,b", b"\t", b"x\0y"]
    b = alnum_strings(a)
    for s in b["s"].tolist():
        if not all(chr(c).isalnum() for c in s):
            raise AssertionError("alnum_strings left %r" % s)
    if [len(s) for s in b["s"].tolist()] != [4, 1, 1]:
        raise AssertionError("alnum_strings changed lengths: %r" % b["s"].tolist())
