"""Generators shared by C12 (HTM matching) and C13 (HTM ids / cover / pair counts).

Everything is JSON-able and built by construction from Hypothesis draws.  Large point sets
are described by a small "bulk" spec (n, seed, centre, cap) and expanded deterministically
with numpy's PCG64 by `expand()` -- the case stays a pure value.
"""
import math

import numpy as np
from hypothesis import strategies as st

from vp.gen import sky
from vp.oracle import htmtri, sphere

LD = np.longdouble


# ---------------------------------------------------------------------------------------------
# cost model: one search circle costs ~ the number of leaf triangles it covers
# ---------------------------------------------------------------------------------------------
def tri_count(radius_deg, depth):
    r = min(max(float(radius_deg), 0.0), 180.0)
    return (1.0 - math.cos(math.radians(r))) / 2.0 * 8.0 * 4.0 ** depth


def max_radius(depth, cap):
    """Largest radius (deg, <= 180) whose circle covers <= cap leaf triangles at `depth`."""
    x = 2.0 * cap / (8.0 * 4.0 ** depth)
    if x >= 2.0:
        return 180.0
    return math.degrees(math.acos(1.0 - x))


def tier():
    """Tier of the running ./check invocation (strategies have no ctx): --tier on the command
    line, else VERIF_TIER, else quick.  Only used to pick the cost cap of generated cases."""
    import os
    import sys
    argv = sys.argv
    for i, a in enumerate(argv):
        if a == "--tier" and i + 1 < len(argv):
            return argv[i + 1]
        if a.startswith("--tier="):
            return a.split("=", 1)[1]
    return os.environ.get("VERIF_TIER", "quick")


def cap(quick=2e3, thorough=5e4):
    return thorough if tier() == "thorough" else quick


def pow10(lo, hi):
    return st.floats(lo, hi).map(lambda e: 10.0 ** e)


# ---------------------------------------------------------------------------------------------
# single points
# ---------------------------------------------------------------------------------------------
@st.composite
def octant_point(draw):
    """On / next to the octahedron edges: lon multiple of 90, lat 0, the poles."""
    d = draw(st.one_of(st.just(0.0), st.just(1e-300), pow10(-15.0, -6.0)))
    s = draw(st.sampled_from([1.0, -1.0]))
    k = draw(st.integers(0, 4))
    which = draw(st.sampled_from(["meridian", "equator", "corner", "pole"]))
    if which == "meridian":
        lon = 90.0 * k + s * d
        lat = draw(sky.uniform_point())[1]
    elif which == "equator":
        lon = draw(st.floats(0.0, 360.0))
        lat = s * d
    elif which == "corner":
        lon = 90.0 * k + s * d
        lat = draw(st.sampled_from([1.0, -1.0, 0.0])) * draw(st.one_of(st.just(0.0), pow10(-15.0, -6.0)))
    else:
        lon = draw(st.one_of(st.floats(0.0, 360.0), st.just(90.0 * k)))
        lat = s * (90.0 - d)
    if lon < 0.0:
        lon += 360.0
    return [lon, max(-90.0, min(90.0, lat))]


@st.composite
def edge_point(draw, max_depth=20):
    """A point on / within 1e-12..1e-6 deg of an edge or vertex of a mesh triangle of drawn
    depth 0..max_depth (built from the independent triangle model)."""
    depth = draw(st.integers(0, max_depth))
    hid = draw(st.integers(8 * 4 ** depth, 16 * 4 ** depth - 1))
    v = htmtri.vertices([hid], depth)[0]
    e = draw(st.integers(0, 2))
    a, b = v[e], v[(e + 1) % 3]
    t = draw(st.one_of(st.floats(0.0, 1.0), st.sampled_from([0.0, 1.0, 0.5])))
    p = a * LD(1.0 - t) + b * LD(t)
    p = p / np.sqrt((p * p).sum())
    off = draw(st.one_of(st.just(0.0), pow10(-12.0, -6.0))) * draw(st.sampled_from([1.0, -1.0]))
    n = np.cross(a, b)
    n = n / np.sqrt((n * n).sum())
    o = LD(off) * sphere.D2R
    q = p * np.cos(o) + n * np.sin(o)
    lon, lat = sphere.lonlat(q)
    lon, lat = float(lon), float(lat)
    if lon >= 360.0:
        lon = 0.0
    return [lon, max(-90.0, min(90.0, lat))]


def any_point():
    return st.one_of(sky.uniform_point(), sky.polar_point(), sky.seam_point(), sky.special_point(),
                     octant_point(), edge_point())


# ---------------------------------------------------------------------------------------------
# bulk point sets
# ---------------------------------------------------------------------------------------------
@st.composite
def bulk(draw, max_n=300):
    n = draw(st.sampled_from([5, 20, 60, 150, max_n]))
    n = min(n, max_n)
    kind = draw(st.sampled_from(["uniform", "cap", "cap", "band"]))
    spec = {"n": n, "seed": draw(st.integers(0, 2 ** 32 - 1)), "kind": kind}
    if kind == "cap":
        spec["centre"] = draw(st.one_of(sky.uniform_point(), sky.polar_point(), sky.seam_point(),
                                        st.sampled_from([[0.0, 90.0], [0.0, -90.0], [0.0, 0.0], [90.0, 0.0],
                                                         [180.0, 0.0], [45.0, 35.264389682754654]])))
        spec["cap"] = draw(pow10(-4.0, 1.5))
    elif kind == "band":
        # straddling the ra = 0/360 seam
        spec["width"] = draw(pow10(-4.0, 1.0))
    return spec


def expand(spec):
    """bulk spec -> list of [lon, lat] float64 (deterministic)."""
    rng = np.random.Generator(np.random.PCG64(int(spec["seed"])))
    n = int(spec["n"])
    if spec["kind"] == "uniform":
        lon = rng.uniform(0.0, 360.0, n)
        lat = np.degrees(np.arcsin(rng.uniform(-1.0, 1.0, n)))
    elif spec["kind"] == "band":
        w = float(spec["width"])
        lon = rng.uniform(-w, w, n) % 360.0
        lat = np.degrees(np.arcsin(rng.uniform(-1.0, 1.0, n)))
    else:
        c = spec["centre"]
        rad = float(spec["cap"]) * np.sqrt(rng.uniform(0.0, 1.0, n))
        bear = rng.uniform(0.0, 360.0, n)
        lo, la = sphere.destination(np.full(n, c[0]), np.full(n, c[1]), bear, rad)
        lon = np.asarray(lo, dtype="f8")
        lat = np.clip(np.asarray(la, dtype="f8"), -90.0, 90.0)
        lon = np.where(lon >= 360.0, 0.0, lon)
    return [[float(a), float(b)] for a, b in zip(lon, lat)]


def all_points(pset):
    """A point-set value {"pts": [[lon,lat],...], "bulk": spec|None} -> (lon, lat) f8 arrays."""
    pts = list(pset["pts"])
    if pset.get("bulk"):
        pts = pts + expand(pset["bulk"])
    a = np.array(pts, dtype="f8").reshape(-1, 2)
    return a[:, 0].copy(), a[:, 1].copy()


def neighbour(p, bearing, dist):
    q = sky.neighbour(p, bearing, dist)
    if q[0] >= 360.0:
        q[0] = 0.0
    return q


# ---------------------------------------------------------------------------------------------
# containers
# ---------------------------------------------------------------------------------------------
CONTAINERS = ["f8", "f8", "f4", "swapped", "strided", "list"]


def as_container(arr, kind):
    """f8 array -> the object handed to esutil, plus the f8 values it denotes."""
    arr = np.asarray(arr, dtype="f8")
    if kind == "f8":
        return arr.copy(), arr
    if kind == "f4":
        a4 = arr.astype("f4")
        return a4, a4.astype("f8")
    if kind == "swapped":
        return arr.astype(">f8"), arr
    if kind == "strided":
        buf = np.full(arr.size * 3 + 1, -77.0)
        buf[1::3] = arr
        return buf[1::3], arr
    if kind == "list":
        return arr.tolist(), arr
    raise ValueError(kind)
