"""The same numeric values in another memory representation.

The statements quantify over "arrays"; a view with strides, a field of a record array or a byte-swapped
array is one.  ``relayout(a, kind)`` returns an object that compares equal to ``a`` element by element.
"""
import numpy as np

KINDS = ["contig", "contig", "contig", "strided", "negstride", "field", "swapped"]


def relayout(a, kind):
    a = np.asarray(a)
    if kind == "strided":
        base = np.zeros(2 * a.size + 1, dtype=a.dtype)
        v = base[1::2]
        v[...] = a.reshape(-1)
        return v.reshape(a.shape) if a.ndim == 1 else a
    if kind == "negstride":
        return np.ascontiguousarray(a[::-1])[::-1] if a.ndim == 1 else a
    if kind == "field":
        if a.ndim != 1:
            return a
        rec = np.zeros(a.size, dtype=[("pad", "i2"), ("v", a.dtype), ("tail", "u1")])
        rec["pad"] = 257
        rec["v"] = a
        return rec["v"]
    if kind == "swapped":
        return a.astype(a.dtype.newbyteorder("S"))
    return a
