"""Sky-point strategies (DESIGN.md section 3).  All values are float64 degrees, JSON-able.

Everything is built by construction from Hypothesis draws (no own RNG): uniform points use
lon = 360 u, lat = asin(2 v - 1); adversarial pairs are built from a base point, a bearing
and a separation with the longdouble destination formula and then rounded to float64.
"""
import math

import numpy as np
from hypothesis import strategies as st

from vp.oracle import sphere

unit = st.floats(0.0, 1.0, allow_nan=False)


def _pow10(lo, hi):
    return st.floats(lo, hi).map(lambda e: 10.0 ** e)


@st.composite
def uniform_point(draw):
    u, v = draw(unit), draw(unit)
    lon = 360.0 * u
    lat = math.degrees(math.asin(max(-1.0, min(1.0, 2.0 * v - 1.0))))
    return [lon, lat]


SPECIAL_LON = [0.0, 360.0, 90.0, 180.0, 270.0, 359.99999999999994, 1e-300, 5e-324, 1e-9, 360.0 - 1e-9,
               45.0, 192.85948, 282.85948, 95.0, 185.0, 266.4, 122.932, 32.93192]
SPECIAL_LAT = [0.0, 90.0, -90.0, 89.99999999999999, -89.99999999999999, 27.12825, -27.12825, 32.5, -32.5,
               62.87175, -28.93617, 23.4392911, 66.5607089, 45.0, 1e-300, -1e-9]


@st.composite
def special_point(draw):
    return [draw(st.sampled_from(SPECIAL_LON)), draw(st.sampled_from(SPECIAL_LAT))]


@st.composite
def polar_point(draw):
    d = draw(_pow10(-9.0, 0.0))
    sign = draw(st.sampled_from([1.0, -1.0]))
    lon = draw(st.one_of(st.floats(0.0, 360.0), st.sampled_from(SPECIAL_LON)))
    return [lon, sign * (90.0 - d)]


@st.composite
def seam_point(draw):
    d = draw(_pow10(-12.0, 0.0))
    lon = draw(st.sampled_from([d, 360.0 - d, 0.0, 360.0]))
    lat = draw(uniform_point())[1]
    return [lon, lat]


def point():
    """One sky point [lon, lat]: uniform mixed with poles, the seam and special values."""
    return st.one_of(uniform_point(), uniform_point(), polar_point(), seam_point(), special_point())


def points(min_size=1, max_size=30):
    return st.lists(point(), min_size=min_size, max_size=max_size)


def _round(lon, lat):
    lon = float(lon)
    lat = float(lat)
    if lat > 90.0:
        lat = 90.0
    if lat < -90.0:
        lat = -90.0
    return [lon, lat]


def neighbour(base, bearing, dist):
    """float64 point at `dist` degrees from base along bearing."""
    lo, la = sphere.destination(base[0], base[1], bearing, dist)
    return _round(lo, la)


@st.composite
def pair(draw):
    """[lon1, lat1, lon2, lat2] from the adversarial families of C08, plus its family name."""
    fam = draw(st.sampled_from(["uniform", "uniform", "tiny", "near-antipodal", "equal", "antipodal",
                                "polar", "seam", "special", "small"]))
    p = draw(point())
    b = draw(st.floats(0.0, 360.0))
    if fam == "uniform":
        q = draw(point())
    elif fam == "tiny":
        q = neighbour(p, b, draw(_pow10(-12.0, -3.0)))
    elif fam == "small":
        q = neighbour(p, b, draw(_pow10(-3.0, 1.0)))
    elif fam == "near-antipodal":
        q = neighbour(p, b, 180.0 - draw(_pow10(-9.0, 0.0)))
    elif fam == "equal":
        q = list(p)
    elif fam == "antipodal":
        q = [p[0] + 180.0 if p[0] < 180.0 else p[0] - 180.0, -p[1]]
    elif fam == "polar":
        p = draw(polar_point())
        q = draw(st.one_of(polar_point(), st.just([draw(st.floats(0.0, 360.0)), math.copysign(90.0, p[1])])))
    elif fam == "seam":
        p = draw(seam_point())
        q = [360.0 - p[0] if p[0] not in (0.0, 360.0) else draw(st.sampled_from([0.0, 360.0, 1e-7])),
             p[1] + draw(st.sampled_from([0.0, 1e-9, 1e-3]))]
        q[1] = max(-90.0, min(90.0, q[1]))
    else:
        p = draw(special_point())
        q = draw(special_point())
    return {"family": fam, "p": p, "q": q}


def as_arrays(pts):
    a = np.array(pts, dtype="f8").reshape(-1, 2)
    return a[:, 0].copy(), a[:, 1].copy()
