"""Packed structured arrays for C07 / C16 (DESIGN.md section 3, "tables").

A *field spec* is the JSON-able list ``[name, base, order, shape]``:

    name   identifier (the pool holds case variants: name matching is case sensitive)
    base   numpy type code without byte order: i1 u1 i2 ... f4 f8 c8 c16 b1 S<k> U<k>
    order  '<' or '>' (ignored -- spelled '|' -- for single-byte and S bases)
    shape  [] (scalar field) or the sub-array shape, dims 1..3

Hypothesis draws only the specs, the array shape and one integer ``seed``; the body is
expanded deterministically from the seed by ``make_array`` (numpy PCG64), so a case stays a
pure value.  Bodies contain raw bit patterns (NaN payloads, -0.0, denormals, integer
extremes, bytes with embedded NULs, non-ASCII code points) unless ``nan_free`` is asked for.
Nothing here calls esutil.
"""
import sys

import numpy as np
from hypothesis import strategies as st

NATIVE = "<" if sys.byteorder == "little" else ">"
SWAPPED = ">" if NATIVE == "<" else "<"

NAME_POOL = ["a", "b", "x", "X", "y", "ra", "dec", "id", "ID", "flux", "name", "_x", "f0", "END",
             "index", "Ab", "aB", "mag_r", "size", "z9"]

INT_BASES = ["i1", "u1", "i2", "u2", "i4", "u4", "i8", "u8"]
FLT_BASES = ["f4", "f8"]
CPX_BASES = ["c8", "c16"]
WIDE_BASES = ["f2", "f16", "c32"]          # half and long double: C16 only
S_BASES = ["S1", "S2", "S3", "S5", "S8"]
U_BASES = ["U1", "U2", "U3"]
SINGLE = ("i1", "u1", "b1")

C07_BASES = INT_BASES + FLT_BASES + CPX_BASES + ["b1"] + S_BASES + U_BASES
C16_NUM_BASES = INT_BASES + FLT_BASES + CPX_BASES + WIDE_BASES + ["b1"]

U_ALPHABET = u"aZ09 _é€\U0001d11e"
S_ALPHABET = b"aZ09 _,\t\xff\x80"


def is_multibyte(base):
    """True when the base type carries a byte order."""
    return not (base in SINGLE or base.startswith("S"))


def typestr(base, order):
    return (order if is_multibyte(base) else "|") + base


def spec_descr(fields):
    """numpy descr list (list of tuples) of a list of field specs."""
    out = []
    for name, base, order, shape in fields:
        if len(shape):
            out.append((name, typestr(base, order), tuple(shape)))
        else:
            out.append((name, typestr(base, order)))
    return out


def make_dtype(fields):
    return np.dtype(spec_descr(fields))


def field_dtype(spec):
    """dtype of the base element of one field (with its byte order)."""
    return np.dtype(typestr(spec[1], spec[2]))


def has_subarray(fields):
    return any(len(f[3]) > 0 for f in fields)


def has_nonnative(fields):
    return any(is_multibyte(f[1]) and f[2] != NATIVE for f in fields)


def has_single(fields):
    return any(not is_multibyte(f[1]) for f in fields)


def has_multi(fields):
    return any(is_multibyte(f[1]) for f in fields)


# ------------------------------------------------------------------ strategies

sub_shapes = st.one_of(
    st.just([]), st.just([]), st.just([]),
    st.lists(st.integers(1, 3), min_size=1, max_size=1),
    st.lists(st.integers(1, 3), min_size=2, max_size=2),
    st.lists(st.integers(1, 2), min_size=3, max_size=3),
)

_small_shapes = st.one_of(
    st.just([]),
    st.sampled_from([[0], [1], [2], [3], [5], [9]]),
    st.sampled_from([[1]]),
    st.tuples(st.integers(1, 3), st.integers(1, 4)).map(list),
    st.sampled_from([[0, 2], [2, 0]]),
)
# one array in forty is long: more than 2^16 / 2^17 elements, where code that works through an array in blocks
# starts (and ends) its second block
_big_shapes = st.sampled_from([[65537], [65536], [70001], [2 ** 17 + 3], [257, 257], [2 ** 18 + 1]])
array_shapes = st.integers(0, 39).flatmap(lambda k: _big_shapes if k == 0 else _small_shapes)


@st.composite
def field_specs(draw, min_fields=1, max_fields=6, bases=None, order="mixed", names=None,
                exclude_names=()):
    """List of field specs with distinct names.

    order: 'mixed'   -- every multi-byte field draws its own order (C07)
           'uniform' -- one order for the whole table (C16)
    """
    bases = bases or C07_BASES
    pool = [n for n in (names or NAME_POOL) if n not in exclude_names]
    n = draw(st.integers(min_fields, max_fields))
    nm = draw(st.lists(st.sampled_from(pool), min_size=n, max_size=n, unique=True))
    table_order = draw(st.sampled_from(["<", ">"]))
    out = []
    for name in nm:
        base = draw(st.sampled_from(bases))
        if order == "uniform":
            o = table_order
        else:
            o = draw(st.sampled_from(["<", ">"]))
        if not is_multibyte(base):
            o = "|"
        out.append([name, base, o, draw(sub_shapes)])
    return out


seeds = st.integers(0, 2 ** 32 - 1)


# ------------------------------------------------------------------ bodies

_F8_SPECIALS = [0.0, -0.0, 1.5, -2.25, 1e300, -1e-300, 5e-324, float("inf"), float("-inf"),
                float("nan"), 3.0, 255.0]


def _raw(rng, nbytes):
    return rng.integers(0, 256, size=nbytes, dtype=np.uint8).tobytes()


def fill_values(rng, base, count, nan_free=False, text_safe=False):
    """`count` values of base type `base` in *native* order (1-d array)."""
    if base == "b1":
        return rng.integers(0, 2, size=count).astype("?")
    if base in INT_BASES:
        dt = np.dtype(base)
        vals = np.frombuffer(_raw(rng, count * dt.itemsize), dtype=dt).copy()
        info = np.iinfo(dt)
        spec = np.array([0, 1, info.min, info.max, info.max - 1, info.min + 1], dtype=dt)
        pick = rng.random(count) < 0.3
        vals[pick] = spec[rng.integers(0, spec.size, size=int(pick.sum()))]
        return vals
    if base in ("f2", "f4", "f8"):
        dt = np.dtype(base)
        vals = np.frombuffer(_raw(rng, count * dt.itemsize), dtype=dt).copy()
        pick = rng.random(count) < 0.4
        with np.errstate(all="ignore"):
            spec = np.array(_F8_SPECIALS, dtype="f8").astype(dt)
        vals[pick] = spec[rng.integers(0, spec.size, size=int(pick.sum()))]
        if nan_free:
            vals[np.isnan(vals)] = dt.type(0.5)
        return vals
    if base == "f16":
        with np.errstate(all="ignore"):      # signalling NaNs are quieted by the widening cast
            return fill_values(rng, "f8", count, nan_free).astype(np.longdouble)
    if base in ("c8", "c16", "c32"):
        part = {"c8": "f4", "c16": "f8", "c32": "f16"}[base]
        re = fill_values(rng, part, count, nan_free)
        im = fill_values(rng, part, count, nan_free)
        out = np.zeros(count, dtype=base)
        out.real = re
        out.imag = im
        return out
    k = int(base[1:])
    if count > 4096:
        # long string columns: a drawn block of 4096 cells repeated (the cells are filled one by one below)
        return np.resize(fill_values(rng, base, 4096, nan_free, text_safe), count)
    if base.startswith("S"):
        out = np.zeros(count, dtype=base)
        raw = out.view("u1").reshape(count, k)
        alpha = np.frombuffer(S_ALPHABET, dtype="u1")
        for i in range(count):
            ln = int(rng.integers(0, k + 1))
            raw[i, :ln] = alpha[rng.integers(0, alpha.size, size=ln)]
            if not text_safe and ln > 1 and rng.random() < 0.15:
                raw[i, int(rng.integers(0, ln - 1))] = 0      # embedded NUL
        return out
    if base.startswith("U"):
        out = np.zeros(count, dtype=base)
        raw = out.view("u4").reshape(count, k)
        alpha = np.array([ord(c) for c in U_ALPHABET], dtype="u4")
        for i in range(count):
            ln = int(rng.integers(0, k + 1))
            raw[i, :ln] = alpha[rng.integers(0, alpha.size, size=ln)]
        return out
    raise ValueError("unknown base %r" % (base,))


def make_array(fields, shape, seed, nan_free=False, text_safe=False):
    """C-contiguous structured array of dtype make_dtype(fields), deterministic in seed."""
    rng = np.random.Generator(np.random.PCG64(int(seed)))
    dt = make_dtype(fields)
    shape = tuple(shape)
    a = np.zeros(shape, dtype=dt)
    n = int(np.prod(shape, dtype=np.int64)) if len(shape) else 1
    for spec in fields:
        name, base, order, fshape = spec
        cnt = n * (int(np.prod(fshape)) if len(fshape) else 1)
        vals = fill_values(rng, base, cnt, nan_free, text_safe)
        a[name] = vals.reshape(shape + tuple(fshape))
    return a


def make_plain(base, order, shape, seed, nan_free=False):
    """Plain (field-less) C-contiguous array of type order+base."""
    rng = np.random.Generator(np.random.PCG64(int(seed)))
    shape = tuple(shape)
    n = int(np.prod(shape, dtype=np.int64)) if len(shape) else 1
    vals = fill_values(rng, base, n, nan_free)
    out = np.zeros(shape, dtype=np.dtype(typestr(base, order)))
    out[...] = vals.reshape(shape)
    return out


def native_bytes(a):
    """Bytes of `a` after conversion of every field to native order (bit-exact values)."""
    a = np.asarray(a)
    return np.ascontiguousarray(a.astype(a.dtype.newbyteorder("="))).tobytes()
