"""Brute-force reference model of esutil's 1-d binning (C05, C14).  Never calls esutil.

The model follows the property statement literally: with lo = min or data.min(),
hi = max or data.max(), a datum x is counted iff lo <= x <= hi and
0 <= floor((x-lo)/binsize) < nbin, the quotient being evaluated in float64.

Near-edge rule (DESIGN.md C05/O): when the float64 quotient is *inexact* and lies within 2 ulp
of an integer k, a correct implementation may put the datum in bin k-1 or in bin k.  Exact
quotients are held strictly.  `allowed_bins` returns that set.
"""
from fractions import Fraction

import numpy as np


def near_integer_inexact(xv, lo, binsize):
    """(ambiguous, k): is float64((xv-lo)/binsize) inexact and within 2 ulp of integer k?"""
    xv, lo, binsize = float(xv), float(lo), float(binsize)
    q = (xv - lo) / binsize
    if not np.isfinite(q):
        return False, None
    k = float(np.rint(q))
    if abs(q - k) > 2.0 * float(np.spacing(max(abs(q), abs(k)))):
        return False, None
    exact = (Fraction(xv) - Fraction(lo)) / Fraction(binsize)
    if exact == Fraction(q):
        return False, None
    return True, int(k)


def derive(x64, binsize=None, nbin=None, vmin=None, vmax=None):
    """Documented derivation of the binning.  Returns dict(lo, hi, binsize, nbin, nbin_alt).

    nbin_alt is the set of bin counts a correct implementation may derive (more than one
    element only when (hi-lo)/binsize is an inexact near-integer).
    """
    x64 = np.asarray(x64, dtype="f8")
    lo = x64.min() if vmin is None else vmin
    hi = x64.max() if vmax is None else vmax
    span = hi - lo          # same arithmetic as the library: python/numpy numbers as passed
    if binsize is not None:
        qn = span / binsize
        nb = int(qn) + 1
        alt = {nb}
        amb, k = near_integer_inexact(hi, lo, binsize)
        if amb:
            alt |= {k, k + 1}
        return {"lo": lo, "hi": hi, "binsize": binsize, "nbin": nb, "nbin_alt": alt}
    bs = float(span) / nbin
    return {"lo": lo, "hi": hi, "binsize": bs, "nbin": int(nbin), "nbin_alt": {int(nbin)}}


def in_limits(x64, lo, hi):
    return (x64 >= lo) & (x64 <= hi)


def assign(x64, lo, hi, binsize, nbin):
    """Strict float64 evaluation: array of bin numbers, -1 for data that are not counted."""
    x64 = np.asarray(x64, dtype="f8")
    with np.errstate(all="ignore"):
        q = (x64 - lo) / binsize
        b = np.floor(q)
    ok = in_limits(x64, lo, hi) & (b >= 0) & (b < nbin)
    out = np.full(x64.size, -1, dtype="i8")
    out[ok] = b[ok].astype("i8")
    return out


def allowed_bins(xv, lo, hi, binsize, nbin):
    """Set of admissible outcomes for one datum (bin number, or -1 = not counted)."""
    if not (xv >= lo and xv <= hi):
        return {-1}
    q = (float(xv) - lo) / binsize
    strict = int(np.floor(q))
    cands = {strict}
    amb, k = near_integer_inexact(xv, lo, binsize)
    if amb:
        cands |= {k - 1, k}
    return {c if 0 <= c < nbin else -1 for c in cands}


def members(x64, assigned, nbin):
    """List (per bin) of index arrays ordered by (value, original index)."""
    x64 = np.asarray(x64, dtype="f8")
    order = np.argsort(x64, kind="stable")
    out = [[] for _ in range(nbin)]
    for i in order.tolist():
        b = int(assigned[i])
        if b >= 0:
            out[b].append(i)
    return [np.array(m, dtype="i8") for m in out]


def nperbin_members(x64, nperbin, mergelast, vmin=None, vmax=None):
    """Equal-occupancy bins: consecutive chunks of the stably sorted in-range data."""
    x64 = np.asarray(x64, dtype="f8")
    order = np.argsort(x64, kind="stable")
    lo = x64.min() if vmin is None else vmin
    hi = x64.max() if vmax is None else vmax
    keep = order[in_limits(x64[order], lo, hi)]
    chunks = [keep[i:i + nperbin] for i in range(0, keep.size, nperbin)]
    if mergelast and len(chunks) >= 2 and chunks[-1].size != nperbin:
        last = chunks.pop()
        chunks[-1] = np.concatenate([chunks[-1], last])
    return chunks


def verify_partition(x64, lo, hi, binsize, hist, rev):
    """Check (hist, rev) against the statement of C05 for data x64.  Returns None or a message.

    Membership is judged datum by datum with `allowed_bins` (strict float64 evaluation except
    for inexact near-integer quotients), so nothing may be missing and nothing extra.
    """
    x64 = np.asarray(x64, dtype="f8")
    n = x64.size
    hist = np.asarray(hist)
    rev = np.asarray(rev)
    nbin = hist.size
    if hist.dtype.kind not in "iu" or rev.dtype.kind not in "iu":
        return "hist/rev are not integer arrays: %r %r" % (hist.dtype, rev.dtype)
    if hist.ndim != 1 or rev.ndim != 1:
        return "hist/rev are not 1-d"
    if rev.size < nbin + 1:
        return "rev has %d entries, fewer than nbin+1=%d" % (rev.size, nbin + 1)
    off = rev[:nbin + 1].astype("i8")
    if int(off[0]) != nbin + 1:
        return "rev[0]=%d, expected nbin+1=%d" % (off[0], nbin + 1)
    if np.any(np.diff(off) < 0):
        return "rev offsets decrease: %r" % (off.tolist()[:50],)
    if int(off[-1]) > rev.size:
        return "rev[nbin]=%d exceeds rev.size=%d" % (off[-1], rev.size)
    lens = np.diff(off)
    if not np.array_equal(lens, hist.astype("i8")):
        bad = int(np.nonzero(lens != hist)[0][0])
        return ("length of reverse-index slice of bin %d is %d but hist[%d]=%d (hist=%r, offsets=%r)"
                % (bad, lens[bad], bad, hist[bad], hist.tolist()[:50], off.tolist()[:50]))
    mem = rev[nbin + 1:int(off[-1])].astype("i8")
    if mem.size and (mem.min() < 0 or mem.max() >= n):
        return "reverse index out of range: %r" % (mem.tolist()[:50],)
    if np.unique(mem).size != mem.size:
        return "an index occurs twice in the reverse-index slices: %r" % (mem.tolist()[:50],)
    binof = np.repeat(np.arange(nbin, dtype="i8"), lens)
    got = np.full(n, -1, dtype="i8")
    got[mem] = binof
    exp = assign(x64, lo, hi, binsize, nbin)
    for i in np.nonzero(got != exp)[0].tolist():
        al = allowed_bins(x64[i], lo, hi, binsize, nbin)
        if int(got[i]) not in al:
            def nm(b):
                return "not counted" if b < 0 else "bin %d" % b
            return ("datum #%d = %r: %s, expected %s (lo=%r hi=%r binsize=%r nbin=%d, quotient %r)"
                    % (i, float(x64[i]), nm(int(got[i])), " or ".join(nm(b) for b in sorted(al)),
                       lo, hi, binsize, nbin, (float(x64[i]) - lo) / binsize))
    # order inside each slice: by value, ties in original order
    if mem.size > 1:
        same = binof[1:] == binof[:-1]
        va, vb = x64[mem[:-1]], x64[mem[1:]]
        okord = (va < vb) | ((va == vb) & (mem[:-1] < mem[1:]))
        badord = same & ~okord
        if badord.any():
            j = int(np.nonzero(badord)[0][0])
            return ("slice of bin %d not ordered by (value, original index): indices %d,%d values %r,%r"
                    % (binof[j], mem[j], mem[j + 1], float(va[j]), float(vb[j])))
    if int(hist.sum()) != mem.size:
        return "sum(hist)=%d but %d data are indexed" % (hist.sum(), mem.size)
    return None
