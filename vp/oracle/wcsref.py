"""FITS-WCS reference transform (pixel -> sky) in numpy.longdouble, written from the papers:

* Greisen & Calabretta 2002 / Calabretta & Greisen 2002: pixel offsets from CRPIX, CD matrix to
  intermediate world coordinates (degrees), gnomonic (TAN) deprojection about CRVAL with the
  default LONPOLE = 180 deg, which reduces to the closed formulas

      alpha = alpha0 + atan2(xi, cos d0 - eta sin d0)
      delta = atan2(eta cos d0 + sin d0, hypot(xi, cos d0 - eta sin d0))

* TPV convention (scamp "PV" polynomial applied to the intermediate coordinates xi, eta; the
  same polynomial is meant when an old scamp wrote CTYPE = 'RA---TAN' with PVi_j cards):

      xi'  = PV1_0 + PV1_1 xi + PV1_2 eta + PV1_3 r + PV1_4 xi^2 + PV1_5 xi eta + PV1_6 eta^2
             + PV1_7 xi^3 + PV1_8 xi^2 eta + PV1_9 xi eta^2 + PV1_10 eta^3
      eta' = PV2_0 + PV2_1 eta + PV2_2 xi + PV2_3 r + PV2_4 eta^2 + PV2_5 eta xi + PV2_6 xi^2
             + PV2_7 eta^3 + PV2_8 eta^2 xi + PV2_9 eta xi^2 + PV2_10 xi^3

  (the radial terms PVi_3 are never generated);
* SIP convention (Shupe et al. 2005): u, v = pixel offsets; u' = u + sum A_p_q u^p v^q,
  v' = v + sum B_p_q u^p v^q, then the CD matrix.

Headers are plain dicts with lower-case keys.  Nothing here calls esutil.
"""
import numpy as np

from vp.oracle import sphere

LD = sphere.LD


def projection(h):
    return h["ctype1"][4:].strip().upper()


def has_pv(h):
    return projection(h) in ("-TAN", "-TPV") and any(k.startswith("pv1_") for k in h)


def has_sip(h):
    return projection(h) == "-TAN-SIP" and any(
        k.startswith("a_") and k != "a_order" for k in h)


def distorted(h):
    return has_pv(h) or has_sip(h)


def _pv(h, axis, k):
    return LD(h.get("pv%d_%d" % (axis, k), 0.0))


def tpv(h, xi, eta):
    p = [_pv(h, 1, k) for k in range(11)]
    q = [_pv(h, 2, k) for k in range(11)]
    xi2, eta2 = xi * xi, eta * eta
    xo = (p[0] + p[1] * xi + p[2] * eta + p[4] * xi2 + p[5] * xi * eta + p[6] * eta2 +
          p[7] * xi2 * xi + p[8] * xi2 * eta + p[9] * xi * eta2 + p[10] * eta2 * eta)
    yo = (q[0] + q[1] * eta + q[2] * xi + q[4] * eta2 + q[5] * eta * xi + q[6] * xi2 +
          q[7] * eta2 * eta + q[8] * eta2 * xi + q[9] * eta * xi2 + q[10] * xi2 * xi)
    return xo, yo


def sip(h, u, v):
    fu = np.zeros_like(u)
    fv = np.zeros_like(v)
    for key, val in h.items():
        for pre, which in (("a_", 0), ("b_", 1)):
            if key.startswith(pre) and key != pre + "order":
                p, q = [int(t) for t in key[2:].split("_")]
                term = LD(val) * u ** p * v ** q
                if which == 0:
                    fu = fu + term
                else:
                    fv = fv + term
    return u + fu, v + fv


def intermediate(h, x, y, distort=True):
    """Intermediate world coordinates (xi, eta) in degrees (longdouble)."""
    x = sphere.ld(x)
    y = sphere.ld(y)
    u = x - LD(h["crpix1"])
    v = y - LD(h["crpix2"])
    if distort and has_sip(h):
        u, v = sip(h, u, v)
    xi = LD(h["cd1_1"]) * u + LD(h["cd1_2"]) * v
    eta = LD(h["cd2_1"]) * u + LD(h["cd2_2"]) * v
    if distort and has_pv(h):
        xi, eta = tpv(h, xi, eta)
    return xi, eta


def deproject(xi, eta, lon0, lat0):
    """Gnomonic deprojection; xi, eta in degrees; returns lon in [0,360), lat (longdouble)."""
    xi = sphere.ld(xi) * sphere.D2R
    eta = sphere.ld(eta) * sphere.D2R
    a0 = LD(lon0) * sphere.D2R
    d0 = LD(lat0) * sphere.D2R
    den = np.cos(d0) - eta * np.sin(d0)
    lon = (a0 + np.arctan2(xi, den)) * sphere.R2D
    lat = np.arctan2(eta * np.cos(d0) + np.sin(d0), np.hypot(xi, den)) * sphere.R2D
    lon = np.where(lon < 0, lon + LD(360), lon)
    lon = np.where(lon < 0, lon + LD(360), lon)
    lon = np.where(lon >= LD(360), lon - LD(360), lon)
    lon = np.where(lon >= LD(360), lon - LD(360), lon)
    return lon, lat


def image2sky(h, x, y, distort=True):
    xi, eta = intermediate(h, x, y, distort)
    return deproject(xi, eta, h["crval1"], h["crval2"])


def selftest():
    """The closed deprojection formulas against a 40-digit vector construction
    (p = c + xi*east + eta*north, normalised) on adversarial reference points."""
    import mpmath as mp
    mp.mp.dps = 40
    worst = 0.0
    rng = np.random.Generator(np.random.PCG64(2024))
    for k in range(120):
        lon0 = [0.0, 359.99999, 1e-5, float(rng.uniform(0, 360))][k % 4]
        lat0 = [90.0, -90.0, 90.0 - 10 ** rng.uniform(-6, 0), -90.0 + 10 ** rng.uniform(-6, 0),
                float(np.degrees(np.arcsin(rng.uniform(-1, 1)))), 0.0][k % 6]
        xi, eta = float(rng.normal(0, 1.5)), float(rng.normal(0, 1.5))
        if k % 5 == 0:
            xi, eta = xi * 1e-6, eta * 1e-6
        lon, lat = deproject(xi, eta, lon0, lat0)
        d2r = mp.pi / 180
        a0, d0 = mp.mpf(lon0) * d2r, mp.mpf(lat0) * d2r
        c = [mp.cos(d0) * mp.cos(a0), mp.cos(d0) * mp.sin(a0), mp.sin(d0)]
        east = [-mp.sin(a0), mp.cos(a0), mp.mpf(0)]
        north = [-mp.sin(d0) * mp.cos(a0), -mp.sin(d0) * mp.sin(a0), mp.cos(d0)]
        X, E = mp.mpf(xi) * d2r, mp.mpf(eta) * d2r
        p = [c[i] + X * east[i] + E * north[i] for i in range(3)]
        # angle between p and the unit vector of (lon, lat)
        def tomp(v):
            v = LD(v)
            hi = float(v)
            return mp.mpf(hi) + mp.mpf(float(v - LD(hi)))
        lo, la = tomp(lon) * d2r, tomp(lat) * d2r
        g = [mp.cos(la) * mp.cos(lo), mp.cos(la) * mp.sin(lo), mp.sin(la)]
        cr = [p[1] * g[2] - p[2] * g[1], p[2] * g[0] - p[0] * g[2], p[0] * g[1] - p[1] * g[0]]
        s = mp.sqrt(sum(t * t for t in cr))
        d = sum(p[i] * g[i] for i in range(3))
        ang = float(mp.atan2(s, d) / d2r)
        worst = max(worst, ang)
    if worst > 1e-15:
        raise RuntimeError("wcsref.deproject drifted from the vector construction: %g deg" % worst)
    # the TPV term order on a hand-expanded example
    h = {"ctype1": "RA---TPV", "pv1_0": 0.0, "pv1_1": 1.0, "pv1_2": 0.0, "pv2_0": 0.0, "pv2_1": 1.0,
         "pv2_2": 0.0, "pv1_8": 2.0, "pv2_8": 3.0, "pv1_5": 5.0, "pv2_6": 7.0}
    xo, yo = tpv(h, LD(0.5), LD(0.25))
    if abs(float(xo) - (0.5 + 2.0 * 0.25 * 0.25 + 5.0 * 0.125)) > 1e-15 or \
            abs(float(yo) - (0.25 + 3.0 * 0.0625 * 0.5 + 7.0 * 0.25)) > 1e-15:
        raise RuntimeError("wcsref.tpv term order broken")
    return worst
