"""Hierarchical Triangular Mesh geometry, independent of esutil (Kunszt/Szalay/Thakar definition).

Root triangles S0..S3 = ids 8..11, N0..N3 = ids 12..15 over the six octahedron vertices;
child k of (v0,v1,v2) with edge midpoints w0=m(v1,v2), w1=m(v0,v2), w2=m(v0,v1):
0:(v0,w2,w1) 1:(v1,w0,w2) 2:(v2,w1,w0) 3:(w0,w1,w2); id(child) = 4*id(parent)+k.
All arithmetic in numpy.longdouble; nothing here calls esutil.
"""
import numpy as np

from vp.oracle import sphere

LD = np.longdouble

OCT = np.array([[0, 0, 1], [1, 0, 0], [0, 1, 0], [-1, 0, 0], [0, -1, 0], [0, 0, -1]], dtype=LD)
ROOT = {8: (1, 5, 2), 9: (2, 5, 3), 10: (3, 5, 4), 11: (4, 5, 1),
        12: (1, 0, 4), 13: (4, 0, 3), 14: (3, 0, 2), 15: (2, 0, 1)}


def _norm(v):
    return v / np.sqrt((v * v).sum(axis=-1))[..., None]


def depth_of(hid):
    """Depth of a (python int) id: 8..15 -> 0, 32..63 -> 1, ..."""
    hid = int(hid)
    if hid < 8:
        raise ValueError("not an HTM id: %r" % hid)
    return (hid.bit_length() - 4) // 2


def valid_id(hid, depth):
    return 8 * 4 ** depth <= int(hid) < 16 * 4 ** depth


def vertices(ids, depth):
    """(n,3,3) longdouble vertices [v0,v1,v2] of the triangles `ids` (all of one depth)."""
    ids = [int(i) for i in np.atleast_1d(ids).tolist()]
    n = len(ids)
    digits = np.zeros((n, depth), dtype=int)
    roots = np.zeros(n, dtype=int)
    for j, hid in enumerate(ids):
        if not valid_id(hid, depth):
            raise ValueError("id %d is not a depth-%d id" % (hid, depth))
        for lev in range(depth - 1, -1, -1):
            digits[j, lev] = hid & 3
            hid >>= 2
        roots[j] = hid
    v = np.zeros((n, 3, 3), dtype=LD)
    for j in range(n):
        a, b, c = ROOT[int(roots[j])]
        v[j, 0], v[j, 1], v[j, 2] = OCT[a], OCT[b], OCT[c]
    for lev in range(depth):
        v0, v1, v2 = v[:, 0], v[:, 1], v[:, 2]
        w0, w1, w2 = _norm(v1 + v2), _norm(v0 + v2), _norm(v0 + v1)
        k = digits[:, lev][:, None]
        n0 = np.where(k == 0, v0, np.where(k == 1, v1, np.where(k == 2, v2, w0)))
        n1 = np.where(k == 0, w2, np.where(k == 1, w0, np.where(k == 2, w1, w1)))
        n2 = np.where(k == 0, w1, np.where(k == 1, w2, np.where(k == 2, w0, w2)))
        v = np.stack([n0, n1, n2], axis=1)
    return v


def edge_distance(verts, p):
    """Signed angular distance (degrees, longdouble) of unit vectors p (n,3) from the three
    edge great circles of triangles verts (n,3,3); positive = on the interior side.
    Returns (n,3)."""
    out = []
    for a, b in ((0, 1), (1, 2), (2, 0)):
        c = np.cross(verts[:, a], verts[:, b])
        c = _norm(c)
        s = (c * p).sum(axis=-1)
        out.append(np.arcsin(np.clip(s, -1, 1)) * sphere.R2D)
    return np.stack(out, axis=-1)


def outside_by(ids, depth, lon, lat):
    """How far (degrees, >= 0) each point lies outside its triangle: max over the edges of the
    distance on the wrong side of that edge's great circle (0 when inside)."""
    verts = vertices(ids, depth)
    p = sphere.unitvec(lon, lat).reshape(-1, 3)
    d = edge_distance(verts, p)
    return np.maximum(0, (-d).max(axis=-1))


def edge_len_deg(depth):
    """Nominal edge length of a depth-d triangle (degrees): 90 / 2**d."""
    return 90.0 / 2.0 ** depth


def selftest():
    """Model consistency: children tile the parent (child vertices lie on/inside the parent,
    solid angles add up) down to depth 6 for random paths; root triangles tile the sphere."""
    rng = np.random.Generator(np.random.PCG64(99))

    def area(v):
        a, b, c = v[:, 0], v[:, 1], v[:, 2]
        num = np.abs((a * np.cross(b, c)).sum(axis=-1))
        den = 1 + (a * b).sum(-1) + (b * c).sum(-1) + (c * a).sum(-1)
        return 2 * np.arctan2(num, den)

    tot = area(vertices(list(range(8, 16)), 0)).sum()
    if abs(float(tot - 4 * sphere.PI)) > 1e-15:
        raise RuntimeError("HTM model: root triangles do not tile the sphere")
    for _ in range(40):
        d = int(rng.integers(0, 7))
        hid = int(rng.integers(8 * 4 ** d, 16 * 4 ** d))
        par = vertices([hid], d)
        kids = vertices([4 * hid + k for k in range(4)], d + 1)
        if abs(float(area(kids).sum() - area(par)[0])) > 1e-16:
            raise RuntimeError("HTM model: children of %d do not tile it" % hid)
        for k in range(4):
            dist = edge_distance(np.repeat(par, 3, axis=0), kids[k])
            if float(dist.min()) < -1e-15:
                raise RuntimeError("HTM model: child %d of %d leaves the parent" % (k, hid))
    return True


def locate(lon, lat, depth):
    """Model point location: for each point the triangle (per level 0..depth) that contains it
    best (largest minimal signed edge distance), and that minimal distance in degrees.
    Returns (ids[level][n] python ints, margin (depth+1, n) float64)."""
    p = sphere.unitvec(lon, lat).reshape(-1, 3)
    n = p.shape[0]
    roots = list(range(8, 16))
    rv = vertices(roots, 0)
    best = None
    bestm = None
    for j, hid in enumerate(roots):
        m = edge_distance(np.repeat(rv[j:j + 1], n, axis=0), p).min(axis=-1)
        if best is None:
            best, bestm = np.full(n, hid, dtype=object), m
        else:
            upd = m > bestm
            best = np.where(upd, hid, best)
            bestm = np.where(upd, m, bestm)
    ids = [[int(x) for x in best]]
    margins = [np.asarray(bestm, dtype="f8")]
    cur = vertices(ids[0], 0)
    for lev in range(depth):
        v0, v1, v2 = cur[:, 0], cur[:, 1], cur[:, 2]
        w0, w1, w2 = _norm(v1 + v2), _norm(v0 + v2), _norm(v0 + v1)
        kids = [np.stack([v0, w2, w1], axis=1), np.stack([v1, w0, w2], axis=1),
                np.stack([v2, w1, w0], axis=1), np.stack([w0, w1, w2], axis=1)]
        ms = np.stack([edge_distance(k, p).min(axis=-1) for k in kids], axis=0)   # (4, n)
        kbest = np.argmax(ms, axis=0)
        cur = np.stack([kids[int(k)][i] for i, k in enumerate(kbest)], axis=0)
        ids.append([4 * a + int(k) for a, k in zip(ids[-1], kbest)])
        margins.append(np.asarray(ms.max(axis=0), dtype="f8"))
    return ids, np.stack(margins, axis=0)
