"""Spherical geometry in numpy.longdouble (80-bit, eps 1.1e-19) -- DESIGN.md section 4.

Nothing here calls esutil.  All angles in degrees unless a name says otherwise.  Inputs are
taken as the float64 values actually handed to the code under test and widened exactly.
"""
import numpy as np

LD = np.longdouble
PI = LD(4) * np.arctan(LD(1))
D2R = PI / LD(180)
R2D = LD(180) / PI


def ld(x):
    return np.asarray(x, dtype=LD)


def unitvec(lon, lat):
    """(..., 3) unit vectors for lon/lat in degrees."""
    lon = ld(lon) * D2R
    lat = ld(lat) * D2R
    cl = np.cos(lat)
    return np.stack([cl * np.cos(lon), cl * np.sin(lon), np.sin(lat)], axis=-1)


def lonlat(v):
    """lon in [0,360), lat in [-90,90] (degrees, longdouble) from (...,3) vectors (any norm)."""
    v = ld(v)
    x, y, z = v[..., 0], v[..., 1], v[..., 2]
    lon = np.arctan2(y, x) * R2D
    lon = np.where(lon < 0, lon + LD(360), lon)
    lat = np.arctan2(z, np.hypot(x, y)) * R2D
    return lon, lat


def sep_vec(a, b):
    """Angle in degrees between vectors (Kahan/atan2 form: accurate at 0 and 180)."""
    a = ld(a)
    b = ld(b)
    c = np.cross(a, b)
    s = np.sqrt((c * c).sum(axis=-1))
    d = (a * b).sum(axis=-1)
    return np.arctan2(s, d) * R2D


def sep(lon1, lat1, lon2, lat2):
    """Great-circle separation in degrees (Vincenty special case on the sphere)."""
    l1 = ld(lon1) * D2R
    l2 = ld(lon2) * D2R
    p1 = ld(lat1) * D2R
    p2 = ld(lat2) * D2R
    dl = l2 - l1
    sp1, cp1, sp2, cp2 = np.sin(p1), np.cos(p1), np.sin(p2), np.cos(p2)
    sdl, cdl = np.sin(dl), np.cos(dl)
    num = np.hypot(cp2 * sdl, cp1 * sp2 - sp1 * cp2 * cdl)
    den = sp1 * sp2 + cp1 * cp2 * cdl
    return np.arctan2(num, den) * R2D


def destination(lon, lat, bearing, dist):
    """Point at angular distance `dist` (deg) from (lon,lat) along `bearing` (deg east of
    north); returns longdouble lon in [0,360), lat."""
    l1 = ld(lon) * D2R
    p1 = ld(lat) * D2R
    b = ld(bearing) * D2R
    d = ld(dist) * D2R
    v = unitvec(lon, lat)
    # north and east tangent vectors at the base point (robust at every latitude)
    north = np.stack([-np.sin(p1) * np.cos(l1), -np.sin(p1) * np.sin(l1), np.cos(p1)], axis=-1)
    east = np.stack([-np.sin(l1), np.cos(l1), np.zeros_like(l1)], axis=-1)
    t = north * np.cos(b)[..., None] + east * np.sin(b)[..., None]
    w = v * np.cos(d)[..., None] + t * np.sin(d)[..., None]
    return lonlat(w)


def rot_z(a_deg):
    a = LD(a_deg) * D2R
    c, s = np.cos(a), np.sin(a)
    return np.array([[c, s, 0], [-s, c, 0], [0, 0, 1]], dtype=LD)  # passive rotation


def rot_x(a_deg):
    a = LD(a_deg) * D2R
    c, s = np.cos(a), np.sin(a)
    return np.array([[1, 0, 0], [0, c, s], [0, -s, c]], dtype=LD)  # passive rotation


def selftest():
    """Pin the oracle against mpmath at 40 digits on adversarial pairs (harness error on
    drift).  Returns the maximal deviation in degrees."""
    import mpmath as mp
    mp.mp.dps = 40
    rng = np.random.Generator(np.random.PCG64(12345))
    worst = 0.0
    pairs = []
    for k in range(200):
        lon = float(rng.uniform(0, 360))
        lat = float(np.degrees(np.arcsin(rng.uniform(-1, 1))))
        kind = k % 5
        if kind == 0:
            lon2, lat2 = float(rng.uniform(0, 360)), float(np.degrees(np.arcsin(rng.uniform(-1, 1))))
        elif kind == 1:
            lon2, lat2 = lon + 10 ** rng.uniform(-12, -3), lat + 10 ** rng.uniform(-12, -3)
        elif kind == 2:
            lon2, lat2 = lon + 180 + 10 ** rng.uniform(-9, 0), -lat
        elif kind == 3:
            lat = 90 - 10 ** rng.uniform(-9, 0)
            lon2, lat2 = float(rng.uniform(0, 360)), 90 - 10 ** rng.uniform(-9, 0)
        else:
            lon, lon2, lat2 = 360 - 10 ** rng.uniform(-9, 0), 10 ** rng.uniform(-9, 0), lat
        lat2 = max(-90.0, min(90.0, lat2))
        pairs.append((lon, lat, lon2, lat2))
    def to_mp(x):
        x = LD(x)
        hi = float(x)
        return mp.mpf(hi) + mp.mpf(float(x - LD(hi)))

    for lon, lat, lon2, lat2 in pairs:
        got = sep(lon, lat, lon2, lat2)
        d2r = mp.pi / 180
        l1, p1, l2, p2 = [mp.mpf(x) * d2r for x in (lon, lat, lon2, lat2)]
        dl = l2 - l1
        num = mp.sqrt((mp.cos(p2) * mp.sin(dl)) ** 2 +
                      (mp.cos(p1) * mp.sin(p2) - mp.sin(p1) * mp.cos(p2) * mp.cos(dl)) ** 2)
        den = mp.sin(p1) * mp.sin(p2) + mp.cos(p1) * mp.cos(p2) * mp.cos(dl)
        ref = mp.atan2(num, den) / d2r
        worst = max(worst, abs(float(to_mp(got) - ref)))
        # the vector route must agree as well
        gv = sep_vec(unitvec(lon, lat), unitvec(lon2, lat2))
        worst = max(worst, abs(float(to_mp(gv) - ref)))
    if worst > 1e-15:
        raise RuntimeError("sphere oracle drifted from mpmath: %g deg" % worst)
    return worst
