"""JSON-serialisable cases (DESIGN.md 2.2).

A case is a plain dict of numbers, strings, lists and encoded values:

* ndarray   -> {"__nd__": descr, "shape": [...], "hex": "..."}   (exact bytes, any dtype)
* bytes     -> {"__b__": hex}
* float     -> JSON number when finite and round-trippable; {"__f__": "nan"|"inf"|"-inf"|hex}
* tuple     -> {"__t__": [...]}
* big ints are plain JSON ints (Python's json handles arbitrary size)
* dict with non-str keys is not supported (headers use str keys)
"""
import hashlib
import json
import struct

import numpy as np


def _descr_to_json(descr):
    out = []
    for ent in descr:
        ent = list(ent)
        if isinstance(ent[1], list):
            ent[1] = _descr_to_json(ent[1])
        if len(ent) == 3:
            ent[2] = list(ent[2]) if isinstance(ent[2], (tuple, list)) else [ent[2]]
        out.append(ent)
    return out


def descr_from_json(descr):
    out = []
    for ent in descr:
        name, typ = ent[0], ent[1]
        if isinstance(typ, list):
            typ = descr_from_json(typ)
        if len(ent) == 3:
            shp = ent[2]
            out.append((name, typ, tuple(shp) if isinstance(shp, (list, tuple)) else (shp,)))
        else:
            out.append((name, typ))
    return out


def dtype_to_json(dt):
    dt = np.dtype(dt)
    if dt.names is None:
        if dt.subdtype is not None:
            raise ValueError("bare sub-array dtype not supported")
        return dt.str
    return _descr_to_json(dt.descr)


def dtype_from_json(j):
    if isinstance(j, str):
        return np.dtype(j)
    return np.dtype(descr_from_json(j))


def enc(x):
    """Encode a Python/numpy value into JSON-able form."""
    if isinstance(x, np.ndarray):
        a = x
        return {"__nd__": dtype_to_json(a.dtype), "shape": list(a.shape),
                "hex": np.ascontiguousarray(a).tobytes().hex()}
    if isinstance(x, np.generic):
        if isinstance(x, np.void):
            return enc(np.asarray(x))
        return enc(x.item())
    if isinstance(x, bool) or x is None or isinstance(x, str):
        return x
    if isinstance(x, int):
        return x
    if isinstance(x, float):
        if x != x:
            return {"__f__": "nan"}
        if x in (float("inf"), float("-inf")):
            return {"__f__": "inf" if x > 0 else "-inf"}
        if x == 0.0 and struct.pack(">d", x)[0] == 0x80:
            return {"__f__": "-0"}
        return x
    if isinstance(x, bytes):
        return {"__b__": x.hex()}
    if isinstance(x, tuple):
        return {"__t__": [enc(v) for v in x]}
    if isinstance(x, list):
        return [enc(v) for v in x]
    if isinstance(x, dict):
        for k in x:
            if not isinstance(k, str):
                raise TypeError("case dict keys must be str, got %r" % (k,))
        return {"__d__": {k: enc(v) for k, v in x.items()}} if any(
            k.startswith("__") and k.endswith("__") for k in x) else {k: enc(v) for k, v in x.items()}
    if isinstance(x, slice):
        return {"__slice__": [enc(x.start), enc(x.stop), enc(x.step)]}
    raise TypeError("cannot encode %r" % type(x))


def dec(j):
    if isinstance(j, list):
        return [dec(v) for v in j]
    if isinstance(j, dict):
        if "__nd__" in j:
            dt = dtype_from_json(j["__nd__"])
            a = np.frombuffer(bytes.fromhex(j["hex"]), dtype=dt).copy()
            return a.reshape(tuple(j["shape"]))
        if "__b__" in j:
            return bytes.fromhex(j["__b__"])
        if "__f__" in j:
            return {"nan": float("nan"), "inf": float("inf"), "-inf": float("-inf"),
                    "-0": -0.0}[j["__f__"]]
        if "__t__" in j:
            return tuple(dec(v) for v in j["__t__"])
        if "__slice__" in j:
            return slice(*[dec(v) for v in j["__slice__"]])
        if "__d__" in j:
            return {k: dec(v) for k, v in j["__d__"].items()}
        return {k: dec(v) for k, v in j.items()}
    return j


def canonical(case):
    return json.dumps(case, sort_keys=True, separators=(",", ":"), allow_nan=False)


def case_hash(case):
    return hashlib.sha1(canonical(case).encode()).hexdigest()[:16]


def abbreviate(case, limit=3000):
    """A verbatim copy if small; otherwise a structure-preserving abbreviation."""
    s = canonical(case)
    if len(s) <= limit:
        return case

    def ab(v, budget):
        if isinstance(v, str):
            return v if len(v) <= budget else v[:budget] + "...(%d chars)" % len(v)
        if isinstance(v, list):
            if len(v) > 12:
                return [ab(x, budget // 12) for x in v[:12]] + ["...(%d items)" % len(v)]
            return [ab(x, max(40, budget // max(1, len(v)))) for x in v]
        if isinstance(v, dict):
            return {k: ab(x, max(40, budget // max(1, len(v)))) for k, x in v.items()}
        return v
    return {"__abbreviated__": True, "sha1": case_hash(case), "case": ab(case, limit)}
