"""known_findings.json (DESIGN.md 2.5).  Read-only at run time.

{
  "findings": [
    {"property": "C10", "key": "wcs-polar-find", "status": "open",
     "subcheck": "roundtrip", "what": "...", "reproducer": <case>},
    {"property": "C06", "key": "unique-first", "status": "fixed", "commit": "<sha>",
     "what": "...", "line": "fixed: property=C06 <sha> <what failed>",
     "regress": "replays/regress/C06-unique-first.json"}
  ]
}

open  : the reproducer is replayed; if it still fails a KNOWN-FINDING line is printed; the
        sub-check's `skip[key]` predicate (or ctx.finding_open(key)) excludes exactly that
        input class from generation so the search continues behind it.
fixed : suppresses nothing; its regression replay must pass.
"""
import json
import os

HERE = os.path.dirname(os.path.dirname(os.path.abspath(__file__)))
PATH = os.path.join(HERE, "known_findings.json")


def load(property_id=None):
    docs = []
    if os.path.exists(PATH):
        with open(PATH) as fh:
            docs.append(json.load(fh))
    out = []
    for f in [f for doc in docs for f in doc.get("findings", [])]:
        if property_id is None or f.get("property") == property_id:
            if f.get("status") not in ("open", "fixed"):
                raise ValueError("known finding %r: status must be open|fixed" % f.get("key"))
            out.append(f)
    return out


def open_findings(property_id):
    return [f for f in load(property_id) if f["status"] == "open"]
