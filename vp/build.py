"""Snapshot + build of the esutil working tree (DESIGN.md 2.1).

The tree under VERIF_REPO (default /repo) is hashed; Python sources are copied into
``<builddir>/tree-<hash>/`` and the compiled extensions are taken from
``<builddir>/ext-<exthash>[-san]/`` (built on demand with ``setup.py build_ext``), so a
Python-only edit of /repo costs a copy and a C edit costs one ~10 s compile.  Nothing is
ever imported from /repo itself or from the stale in-tree ``*.so`` files.
"""
import fcntl
import hashlib
import os
import shutil
import subprocess
import sys
import time

HERE = os.path.dirname(os.path.dirname(os.path.abspath(__file__)))
PY_SUFFIXES = (".py",)
EXT_SUFFIXES = (".c", ".cc", ".cpp", ".h", ".hpp", ".i", ".cxx", ".hxx")
KEEP_BUILDS = 4


class BuildError(Exception):
    pass


def repo_dir():
    return os.path.abspath(os.environ.get("VERIF_REPO", "/repo"))


def build_root():
    return os.path.abspath(os.environ.get("VERIF_BUILD_DIR", os.path.join(HERE, ".build")))


def _walk(repo):
    out = []
    for name in ("setup.py", "pyproject.toml"):
        p = os.path.join(repo, name)
        if os.path.isfile(p):
            out.append(name)
    top = os.path.join(repo, "esutil")
    for dp, dn, fn in os.walk(top):
        dn[:] = sorted(d for d in dn if d not in ("__pycache__", "build", "tmp"))
        for f in sorted(fn):
            if f.endswith(PY_SUFFIXES + EXT_SUFFIXES):
                out.append(os.path.relpath(os.path.join(dp, f), repo))
    return out


def tree_hashes(repo):
    full = hashlib.sha1()
    ext = hashlib.sha1()
    for rel in _walk(repo):
        with open(os.path.join(repo, rel), "rb") as fh:
            data = fh.read()
        rec = rel.encode() + b"\0" + hashlib.sha1(data).digest()
        full.update(rec)
        if rel.endswith(EXT_SUFFIXES) or rel in ("setup.py", "pyproject.toml"):
            ext.update(rec)
    return full.hexdigest()[:16], ext.hexdigest()[:16]


def _copy_sources(repo, dest, want_ext_sources):
    for rel in _walk(repo):
        if not want_ext_sources and rel.endswith(EXT_SUFFIXES):
            continue
        d = os.path.join(dest, rel)
        os.makedirs(os.path.dirname(d), exist_ok=True)
        shutil.copy2(os.path.join(repo, rel), d)


SAN_FLAGS = "-fsanitize=address -fno-omit-frame-pointer -g -O1"


def _build_ext(repo, extdir, sanitize):
    tmp = extdir + ".tmp%d" % os.getpid()
    shutil.rmtree(tmp, ignore_errors=True)
    os.makedirs(tmp)
    _copy_sources(repo, tmp, True)
    env = dict(os.environ)
    env.pop("PYTHONPATH", None)
    if sanitize:
        env["CFLAGS"] = SAN_FLAGS
        env["CXXFLAGS"] = SAN_FLAGS
        env["LDFLAGS"] = "-fsanitize=address"
    cmd = [sys.executable, "setup.py", "-q", "build_ext", "--inplace", "-j16"]
    p = subprocess.run(cmd, cwd=tmp, env=env, stdout=subprocess.PIPE,
                       stderr=subprocess.STDOUT, text=True, errors="replace")
    if p.returncode != 0:
        shutil.rmtree(tmp, ignore_errors=True)
        raise BuildError("build_ext failed (exit %d):\n%s" % (p.returncode, p.stdout[-6000:]))
    sos = []
    for dp, dn, fn in os.walk(os.path.join(tmp, "esutil")):
        for f in fn:
            if f.endswith(".so"):
                sos.append(os.path.relpath(os.path.join(dp, f), tmp))
    if len(sos) < 5:
        shutil.rmtree(tmp, ignore_errors=True)
        raise BuildError("expected 5 extension modules, got %r\n%s" % (sos, p.stdout[-3000:]))
    os.makedirs(extdir, exist_ok=True)
    for rel in sos:
        d = os.path.join(extdir, rel)
        os.makedirs(os.path.dirname(d), exist_ok=True)
        shutil.copy2(os.path.join(tmp, rel), d)
    shutil.rmtree(tmp, ignore_errors=True)
    with open(os.path.join(extdir, ".complete"), "w") as fh:
        fh.write("ok\n")


def _prune(root, keep_names):
    ents = []
    for n in os.listdir(root):
        p = os.path.join(root, n)
        if not os.path.isdir(p) or n in keep_names:
            continue
        if n.startswith(("tree-", "ext-")):
            ents.append((os.path.getmtime(p), p))
    ents.sort(reverse=True)
    for _, p in ents[2 * KEEP_BUILDS:]:
        shutil.rmtree(p, ignore_errors=True)


def ensure_build(sanitize=False, quiet=False):
    """Return the directory to put first on sys.path."""
    repo = repo_dir()
    if not os.path.isdir(os.path.join(repo, "esutil")):
        raise BuildError("no esutil package under %s" % repo)
    root = build_root()
    os.makedirs(root, exist_ok=True)
    full, ext = tree_hashes(repo)
    suffix = "-san" if sanitize else ""
    treedir = os.path.join(root, "tree-%s%s" % (full, suffix))
    extdir = os.path.join(root, "ext-%s%s" % (ext, suffix))
    if os.path.exists(os.path.join(treedir, ".complete")):
        try:
            os.utime(treedir)
            os.utime(extdir)
        except OSError:
            pass
        return treedir
    with open(os.path.join(root, ".lock"), "w") as lock:
        fcntl.flock(lock, fcntl.LOCK_EX)
        if os.path.exists(os.path.join(treedir, ".complete")):
            return treedir
        t0 = time.time()
        if not os.path.exists(os.path.join(extdir, ".complete")):
            shutil.rmtree(extdir, ignore_errors=True)
            if not quiet:
                print("[build] compiling extensions of %s -> %s" % (repo, extdir), flush=True)
            _build_ext(repo, extdir, sanitize)
        shutil.rmtree(treedir, ignore_errors=True)
        os.makedirs(treedir)
        _copy_sources(repo, treedir, False)
        for dp, dn, fn in os.walk(extdir):
            for f in fn:
                if f.endswith(".so"):
                    rel = os.path.relpath(os.path.join(dp, f), extdir)
                    d = os.path.join(treedir, rel)
                    os.makedirs(os.path.dirname(d), exist_ok=True)
                    shutil.copy2(os.path.join(dp, f), d)
        with open(os.path.join(treedir, ".complete"), "w") as fh:
            fh.write("repo=%s\nfull=%s\next=%s\n" % (repo, full, ext))
        if not quiet:
            print("[build] tree %s ready in %.1fs" % (treedir, time.time() - t0), flush=True)
        _prune(root, {os.path.basename(treedir), os.path.basename(extdir)})
    return treedir


def activate(treedir):
    """Put the build first on sys.path and verify esutil comes from it."""
    sys.path.insert(0, treedir)
    for m in [m for m in sys.modules if m == "esutil" or m.startswith("esutil.")]:
        del sys.modules[m]
    import esutil
    f = os.path.realpath(esutil.__file__)
    if not f.startswith(os.path.realpath(treedir) + os.sep):
        raise BuildError("esutil imported from %s, not from build %s" % (f, treedir))
    # all five extensions must import from the build as well
    import importlib
    for name in ("esutil.recfile._records", "esutil.cosmology._cosmolib", "esutil.htm._htmc",
                 "esutil.stat._chist", "esutil.integrate._cgauleg"):
        mod = importlib.import_module(name)
        mf = os.path.realpath(mod.__file__)
        if not mf.startswith(os.path.realpath(treedir) + os.sep):
            raise BuildError("%s imported from %s" % (name, mf))
    return esutil


if __name__ == "__main__":
    d = ensure_build(sanitize="--san" in sys.argv)
    print(d)
