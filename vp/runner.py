"""./check <ID> --tier quick|thorough [--replay FILE] [--only SUBCHECK]

Exit 0: every sub-check held on everything explored (KNOWN-FINDING lines allowed).
Exit 1: at least one "VIOLATION property=<ID> replay=<path>" line was printed.
Exit 2: harness / build / timeout problem (never a verdict).
"""
import argparse
import glob
import importlib.util
import json
import math
import os
import shutil
import signal
import sys
import time
import traceback

HERE = os.path.dirname(os.path.dirname(os.path.abspath(__file__)))
if HERE not in sys.path:
    sys.path.insert(0, HERE)

from vp import build, findings  # noqa: E402
from vp.api import Ctx, HarnessError, Violation  # noqa: E402
from vp.case import abbreviate, canonical, case_hash  # noqa: E402

TIER_TIMEOUT = {"quick": 1500.0, "thorough": 6 * 3600.0}


class _Abort(KeyboardInterrupt):
    """Leaves Hypothesis immediately (it re-raises KeyboardInterrupt)."""


class ShrinkTimeout(_Abort):
    pass


class HarnessAbort(_Abort):
    pass


def load_module(pid):
    num = pid[1:].lower()
    pats = glob.glob(os.path.join(HERE, "checks", "c%s_*.py" % num))
    if len(pats) != 1:
        raise HarnessError("expected exactly one checks/c%s_*.py, found %r" % (num, pats))
    spec = importlib.util.spec_from_file_location("checks_" + pid, pats[0])
    mod = importlib.util.module_from_spec(spec)
    sys.modules[spec.name] = mod
    spec.loader.exec_module(mod)
    if getattr(mod, "PROPERTY", None) != pid:
        raise HarnessError("%s: PROPERTY != %s" % (pats[0], pid))
    names = [s.name for s in mod.SUBCHECKS]
    if len(set(names)) != len(names):
        raise HarnessError("duplicate sub-check names in %s" % pats[0])
    return mod


def from_esutil(exc, treedir):
    """True if the exception's traceback passes through the built esutil."""
    root = os.path.realpath(treedir) + os.sep
    e = exc
    seen = 0
    while e is not None and seen < 5:
        tb = e.__traceback__
        while tb is not None:
            fn = os.path.realpath(tb.tb_frame.f_code.co_filename)
            if fn.startswith(root):
                return True
            tb = tb.tb_next
        e = e.__cause__ or e.__context__
        seen += 1
    return False


class TaskState(object):
    def __init__(self):
        self.evaluations = 0
        self.nt = set()
        self.classes = {}
        self.first = []
        self.first_nt = []
        self.excluded = {}
        self.notes = {}
        self.fail_case = None
        self.fail_msg = None
        self.fail_size = None
        self.first_fail_t = None
        self.seen_hashes = set()


def run_one(sub, case, ctx, state, treedir, journal_path=None, classify=True,
            open_keys=()):
    """Execute one case.  Raises Violation / HarnessAbort."""
    for key in open_keys:
        pred = sub.skip.get(key)
        if pred is not None:
            try:
                hit = pred(case)
            except Exception:
                raise HarnessAbort("skip predicate %s raised:\n%s" % (key, traceback.format_exc()))
            if hit:
                state.excluded[key] = state.excluded.get(key, 0) + 1
                return
    if journal_path is not None:
        with open(journal_path, "w") as fh:
            fh.write(canonical(case))
    state.evaluations += 1
    if classify:
        try:
            labels = list(sub.classify(case))
            h = case_hash(case)
        except Exception:
            raise HarnessAbort("classify raised:\n%s" % traceback.format_exc())
        if h not in state.seen_hashes:
            if len(state.seen_hashes) < 2000000:
                state.seen_hashes.add(h)
            for lab in labels:
                state.classes[lab] = state.classes.get(lab, 0) + 1
            nt = any(lab.startswith("nt:") for lab in labels)
            if nt:
                state.nt.add(h)
                if len(state.first_nt) < 3:
                    state.first_nt.append(abbreviate(case))
            if len(state.first) < 3:
                state.first.append(abbreviate(case))
    # every case starts from numpy's default floating-point error handling: a case must not depend on what an
    # earlier case in the same worker left behind (a failure has to reproduce from its replay file alone)
    try:
        import numpy as _np
        _np.seterr(divide="warn", over="warn", under="ignore", invalid="warn")
    except Exception:  # noqa: BLE001
        pass
    try:
        sub.check(case, ctx)
    except Violation as v:
        _record_fail(state, case, str(v))
        raise
    except _Abort:
        raise
    except Exception as exc:  # noqa: BLE001
        if from_esutil(exc, treedir):
            msg = "unexpected %s escaping esutil: %s" % (type(exc).__name__, str(exc)[:300])
            _record_fail(state, case, msg)
            raise Violation(msg) from exc
        raise HarnessAbort("check %s raised outside esutil:\n%s\ncase: %s"
                           % (sub.name, traceback.format_exc(), canonical(case)[:4000]))
    finally:
        for k, v in ctx.notes.items():
            state.notes[k] = state.notes.get(k, 0) + v
        ctx.notes.clear()
        ctx.cleanup()


def _record_fail(state, case, msg):
    size = len(canonical(case))
    # Hypothesis replays its minimal example last; keep the latest, remember the smallest
    state.fail_case, state.fail_msg, state.fail_size = case, msg, size
    if state.first_fail_t is None:
        state.first_fail_t = time.time()


def task_main(mod, sub, task, treedir, workdir, outpath):
    """Runs in a forked child; writes its result as JSON to outpath."""
    res = {"task": task, "violation": None, "harness_error": None}
    import warnings
    warnings.simplefilter("ignore")      # numpy RuntimeWarnings from the code under test are not verdicts
    state = TaskState()
    tier = task["tier"]
    open_keys = task["open_keys"]
    ctx = Ctx(tier, set(open_keys), workdir)
    journal = os.path.join(workdir, "journal-%s.json" % task["id"]) if sub.journal else None
    t0 = time.time()
    try:
        if task["kind"] == "replay":
            try:
                run_one(sub, task["case"], ctx, state, treedir, journal, classify=False,
                        open_keys=())
            except Violation:
                pass
        elif task["kind"] == "exhaustive":
            try:
                for i, case in enumerate(sub.exhaustive(tier)):
                    if i % task["nshards"] != task["shard"]:
                        continue
                    run_one(sub, case, ctx, state, treedir, journal, open_keys=open_keys)
            except Violation:
                pass
        else:
            _hypothesis_task(sub, task, ctx, state, treedir, journal, open_keys)
    except HarnessAbort as e:
        res["harness_error"] = str(e)
    except HarnessError as e:
        res["harness_error"] = "HarnessError: %s" % e
    except Exception:
        res["harness_error"] = traceback.format_exc()
    if state.fail_case is not None and res["harness_error"] is None:
        res["violation"] = {"case": state.fail_case, "message": state.fail_msg}
    res.update(evaluations=state.evaluations, nt=sorted(state.nt), classes=state.classes,
               first=state.first, first_nt=state.first_nt, excluded=state.excluded,
               notes=state.notes, wall_s=time.time() - t0)
    tmp = outpath + ".tmp"
    with open(tmp, "w") as fh:
        json.dump(res, fh)
    os.rename(tmp, outpath)


def _hypothesis_task(sub, task, ctx, state, treedir, journal, open_keys):
    import hypothesis
    from hypothesis import HealthCheck, Phase, given, seed, settings
    from hypothesis import errors as herr

    max_shrink = sub.max_shrink_s or (40.0 if task["tier"] == "quick" else 180.0)

    def body(case):
        if state.first_fail_t is not None and time.time() - state.first_fail_t > max_shrink:
            raise ShrinkTimeout()
        run_one(sub, case, ctx, state, treedir, journal, open_keys=open_keys)

    n = max(1, int(task["examples"]))
    st = settings(max_examples=n, database=None, deadline=None, derandomize=False,
                  report_multiple_bugs=False, print_blob=False,
                  phases=[Phase.generate, Phase.shrink],
                  suppress_health_check=[HealthCheck.too_slow, HealthCheck.data_too_large,
                                         HealthCheck.large_base_example])
    test = seed(task["seed"])(st(given(sub.strategy())(body)))
    try:
        # keep Hypothesis's own failure report out of stdout; the runner reports
        test()
    except Violation:
        pass
    except ShrinkTimeout:
        pass
    except (herr.FailedHealthCheck, herr.Unsatisfiable, herr.InvalidArgument) as e:
        raise HarnessAbort("hypothesis: %s: %s" % (type(e).__name__, e))
    except herr.Flaky as e:
        # the same case passed on a second execution: report as a harness problem with
        # the case, never as a verdict
        raise HarnessAbort("hypothesis reports a flaky case (%s); last failing case: %s / %s"
                           % (e, state.fail_msg, canonical(state.fail_case)[:2000]
                              if state.fail_case is not None else None))
    except BaseExceptionGroup as eg:  # noqa: F821  (py>=3.11)
        raise HarnessAbort("exception group from hypothesis: %r" % (eg.exceptions,))


def _kill_group(pgid):
    """Kill every process still in the session/process group a task child created."""
    try:
        os.killpg(pgid, signal.SIGKILL)
    except (OSError, ProcessLookupError):
        pass


class Pool(object):
    """Fork one child per task, at most `jobs` at a time; collect JSON results; notice
    children that died on a signal."""

    def __init__(self, jobs, workdir):
        self.jobs = jobs
        self.workdir = workdir
        self.running = {}

    def run(self, tasks, fn, deadline):
        results = []
        queue = list(tasks)
        while queue or self.running:
            while queue and len(self.running) < self.jobs:
                t = queue.pop(0)
                out = os.path.join(self.workdir, "result-%s.json" % t["id"])
                pid = os.fork()
                if pid == 0:
                    code = 0
                    try:
                        # own session: whatever the code under test leaves running (worker pools, helper
                        # processes) is killed with the task and cannot outlive it or hold our pipes open
                        try:
                            os.setsid()
                        except OSError:
                            pass
                        signal.signal(signal.SIGINT, signal.SIG_DFL)
                        fn(t, out)
                    except BaseException:
                        traceback.print_exc()
                        code = 3
                    finally:
                        sys.stdout.flush()
                        sys.stderr.flush()
                        os._exit(code)
                self.running[pid] = (t, out)
            if time.time() > deadline:
                for pid in list(self.running):
                    _kill_group(pid)
                    try:
                        os.kill(pid, signal.SIGKILL)
                    except OSError:
                        pass
                for pid in list(self.running):
                    try:
                        os.waitpid(pid, 0)
                    except OSError:
                        pass
                self.running.clear()
                raise TimeoutError("tier time limit reached")
            try:
                pid, status = os.waitpid(-1, os.WNOHANG)
            except ChildProcessError:
                pid = 0
            if pid == 0:
                time.sleep(0.02)
                continue
            if pid not in self.running:
                continue
            _kill_group(pid)          # stragglers of the finished task
            t, out = self.running.pop(pid)
            if os.path.exists(out):
                with open(out) as fh:
                    r = json.load(fh)
            else:
                r = {"task": t, "violation": None, "harness_error": None, "evaluations": 0,
                     "nt": [], "classes": {}, "first": [], "first_nt": [], "excluded": {},
                     "notes": {}, "wall_s": 0.0}
                sig = os.WTERMSIG(status) if os.WIFSIGNALED(status) else None
                code = os.WEXITSTATUS(status) if os.WIFEXITED(status) else None
                jpath = os.path.join(self.workdir, "journal-%s.json" % t["id"])
                if (sig is not None or code not in (0, 3)) and os.path.exists(jpath):
                    with open(jpath) as fh:
                        case = json.load(fh)
                    r["violation"] = {"case": case, "message":
                                      "worker died (signal %s, exit %s) while running this case"
                                      % (sig, code), "crash": True}
                else:
                    r["harness_error"] = "worker ended without result (signal %s, exit %s)" % (sig, code)
            results.append(r)
        return results


def plan_tasks(mod, tier, seed, only, open_keys_by_sub, scale):
    tasks = []
    tid = 0
    for si, sub in enumerate(mod.SUBCHECKS):
        if only and sub.name not in only:
            continue
        ok = open_keys_by_sub.get(sub.name, [])
        if sub.exhaustive is not None and tier in sub.exhaustive_tiers:
            ns = 16 if tier == "thorough" else 4
            for sh in range(ns):
                tasks.append({"id": "t%d" % tid, "kind": "exhaustive", "subcheck": sub.name,
                              "tier": tier, "shard": sh, "nshards": ns, "open_keys": ok})
                tid += 1
        if sub.strategy is None:
            continue
        total = int(math.ceil(sub.budget(tier) * scale))
        if total <= 0:
            continue
        ns = sub.shards or (4 if tier == "quick" else 16)
        ns = max(1, min(ns, total // 25 or 1))
        per = int(math.ceil(total / float(ns)))
        for sh in range(ns):
            tasks.append({"id": "t%d" % tid, "kind": "generate", "subcheck": sub.name,
                          "tier": tier, "shard": sh, "nshards": ns, "examples": per,
                          "seed": (seed * 1000003 + si * 1009 + sh * 17 + (0 if tier == "quick" else 7)) % (2 ** 63),
                          "open_keys": ok})
            tid += 1
    # longest first is unknown; interleave sub-checks so all start early
    return tasks


def write_replay(pid, subname, viol, tier, seed, directory):
    os.makedirs(directory, exist_ok=True)
    doc = {"property": pid, "subcheck": subname, "case": viol["case"],
           "message": viol["message"], "tier": tier, "seed": seed}
    path = os.path.join(directory, "%s-%s-%s.json" % (pid, subname, case_hash(viol["case"])))
    with open(path, "w") as fh:
        json.dump(doc, fh, indent=1, sort_keys=True)
    return path


def main(argv=None):
    ap = argparse.ArgumentParser(prog="check")
    ap.add_argument("property")
    ap.add_argument("--tier", default=os.environ.get("VERIF_TIER", "quick"),
                    choices=["quick", "thorough"])
    ap.add_argument("--replay", default=None)
    ap.add_argument("--only", action="append", default=[])
    ap.add_argument("--no-evidence", action="store_true")
    ap.add_argument("--scale", type=float, default=float(os.environ.get("VERIF_SCALE", "1")))
    ap.add_argument("--san-pass", default=None, help=argparse.SUPPRESS)   # internal: summary path
    args = ap.parse_args(argv)
    pid = args.property.upper()
    seed = int(os.environ.get("VERIF_SEED", "1") or "1")
    jobs = int(os.environ.get("VERIF_JOBS", "16"))
    t0 = time.time()
    os.environ.setdefault("PYTHONHASHSEED", "0")

    try:
        treedir = build.ensure_build(sanitize=bool(args.san_pass))
        build.activate(treedir)
    except build.BuildError as e:
        print("HARNESS-ERROR build: %s" % e)
        return 2
    try:
        mod = load_module(pid)
    except Exception:
        print("HARNESS-ERROR loading check module:\n%s" % traceback.format_exc())
        return 2
    subs = {s.name: s for s in mod.SUBCHECKS}
    if hasattr(mod, "selftest") and not args.replay:
        try:
            mod.selftest()
        except Exception:
            print("HARNESS-ERROR oracle self-test failed:\n%s" % traceback.format_exc())
            return 2

    workroot = os.environ.get("VERIF_WORK_DIR", os.path.join(HERE, ".work"))
    workdir = os.path.join(workroot, "%s-%d" % (pid, os.getpid()))
    os.makedirs(workdir, exist_ok=True)
    try:
        return _run(args, pid, seed, jobs, t0, treedir, mod, subs, workdir)
    finally:
        shutil.rmtree(workdir, ignore_errors=True)


def _run(args, pid, seed, jobs, t0, treedir, mod, subs, workdir):
    tier = args.tier
    pool = Pool(jobs, workdir)
    deadline = t0 + float(os.environ.get("VERIF_TIMEOUT", TIER_TIMEOUT[tier]))

    def child(task, out):
        task_main(mod, subs[task["subcheck"]], task, treedir, workdir, out)

    # ---- single replay -------------------------------------------------------------
    if args.replay:
        with open(args.replay) as fh:
            doc = json.load(fh)
        if doc.get("property") != pid or doc.get("subcheck") not in subs:
            print("HARNESS-ERROR replay file is for %s/%s" % (doc.get("property"), doc.get("subcheck")))
            return 2
        t = {"id": "r0", "kind": "replay", "subcheck": doc["subcheck"], "tier": tier,
             "case": doc["case"], "open_keys": []}
        r = pool.run([t], child, deadline)[0]
        if r["harness_error"]:
            print("HARNESS-ERROR %s" % r["harness_error"])
            return 2
        if r["violation"]:
            print("VIOLATION property=%s replay=%s" % (pid, os.path.abspath(args.replay)))
            print("  subcheck=%s: %s" % (doc["subcheck"], r["violation"]["message"]))
            return 1
        print("replay passed: %s" % args.replay)
        return 0

    known = findings.load(pid)
    open_f = [f for f in known if f["status"] == "open"]
    open_keys_by_sub = {}
    for f in open_f:
        for sname in ([f["subcheck"]] if isinstance(f.get("subcheck"), str) else f.get("subcheck", list(subs))):
            open_keys_by_sub.setdefault(sname, []).append(f["key"])

    violations = []      # (subcheck, path, message)
    harness_errors = []
    lines = []

    # ---- committed regression replays + reproducers of open findings ----------------
    rtasks = []
    reg = sorted(glob.glob(os.path.join(HERE, "replays", "regress", "%s-*.json" % pid)))
    if os.environ.get("VERIF_NO_REGRESS"):
        # sensitivity measurements only: does the *generated* search find a re-introduced defect
        # without the pinned replay?  Never set by the registered commands.
        reg = []
    for i, path in enumerate(reg):
        with open(path) as fh:
            doc = json.load(fh)
        if doc.get("subcheck") not in subs:
            harness_errors.append("regression replay %s names unknown sub-check %r" % (path, doc.get("subcheck")))
            continue
        if args.only and doc["subcheck"] not in args.only:
            continue
        rtasks.append({"id": "g%d" % i, "kind": "replay", "subcheck": doc["subcheck"], "tier": tier,
                       "case": doc["case"], "open_keys": [], "path": path, "role": "regress"})
    for i, f in enumerate(open_f):
        sname = f["subcheck"] if isinstance(f.get("subcheck"), str) else None
        if sname is None or sname not in subs or "reproducer" not in f:
            harness_errors.append("open finding %s needs a subcheck name and a reproducer" % f.get("key"))
            continue
        rtasks.append({"id": "k%d" % i, "kind": "replay", "subcheck": sname, "tier": tier,
                       "case": f["reproducer"], "open_keys": [], "role": "known", "key": f["key"],
                       "what": f["what"]})
    replays_run = 0
    try:
        for r in pool.run(rtasks, child, deadline):
            t = r["task"]
            replays_run += 1
            if r["harness_error"]:
                harness_errors.append("replay %s: %s" % (t.get("path", t.get("key")), r["harness_error"]))
            elif t["role"] == "regress" and r["violation"]:
                violations.append((t["subcheck"], t["path"], r["violation"]["message"]))
            elif t["role"] == "known":
                if r["violation"]:
                    lines.append("KNOWN-FINDING: property=%s %s [%s]" % (pid, t["what"], t["key"]))
                else:
                    lines.append("NOTE: known finding %s no longer reproduces (entry can be marked fixed)" % t["key"])
    except TimeoutError:
        harness_errors.append("time limit reached during replays")

    # ---- generated / exhaustive exploration ----------------------------------------------
    tasks = plan_tasks(mod, tier, seed, args.only, open_keys_by_sub, args.scale)
    results = []
    timed_out = False
    try:
        results = pool.run(tasks, child, deadline)
    except TimeoutError:
        timed_out = True
        harness_errors.append("tier time limit reached: inconclusive")

    per_sub = {}
    nt_all = set()
    classes = {}
    excluded = {}
    notes = {}
    first, first_nt = [], []
    evaluations = 0
    exhaustive_done = []
    for r in sorted(results, key=lambda r: int(r["task"]["id"][1:])):
        t = r["task"]
        s = per_sub.setdefault(t["subcheck"], {"evaluations": 0, "nt": set(), "violation": None,
                                               "wall_s": 0.0, "tasks": 0})
        s["evaluations"] += r["evaluations"]
        s["nt"].update(r["nt"])
        s["wall_s"] += r["wall_s"]
        s["tasks"] += 1
        evaluations += r["evaluations"]
        nt_all.update((t["subcheck"], h) for h in r["nt"])
        for k, v in r["classes"].items():
            key = "%s/%s" % (t["subcheck"], k)
            classes[key] = classes.get(key, 0) + v
        for k, v in r["excluded"].items():
            excluded[k] = excluded.get(k, 0) + v
        for k, v in r["notes"].items():
            key = "%s/%s" % (t["subcheck"], k)
            notes[key] = notes.get(key, 0) + v
        for c in r["first"]:
            if len(first) < 3:
                first.append({"subcheck": t["subcheck"], "case": c})
        for c in r["first_nt"]:
            if sum(1 for x in first_nt if x["subcheck"] == t["subcheck"]) < 1 and len(first_nt) < 12:
                first_nt.append({"subcheck": t["subcheck"], "case": c})
        if t["kind"] == "exhaustive":
            exhaustive_done.append(t["subcheck"])
        if r["harness_error"]:
            harness_errors.append("%s[%s]: %s" % (t["subcheck"], t["id"], r["harness_error"]))
        if r["violation"] and s["violation"] is None:
            s["violation"] = r["violation"]
    for sname, s in per_sub.items():
        if s["violation"] is not None:
            path = write_replay(pid, sname, s["violation"], tier, seed,
                                os.path.join(HERE, "replays", "found"))
            violations.append((sname, path, s["violation"]["message"]))

    san = None
    if (tier == "thorough" and getattr(mod, "SANITIZE", False) and not args.san_pass and not args.only
            and not timed_out and os.environ.get("VERIF_NO_SAN") != "1"):
        san = _sanitizer_pass(pid, args, workdir)
        if san.get("error"):
            harness_errors.append("sanitizer pass: %s" % san["error"])
    san_violations = san.get("violations", 0) if san else 0

    wall = time.time() - t0
    for ln in lines:
        print(ln)
    for sname, path, msg in violations:
        print("VIOLATION property=%s replay=%s" % (pid, path))
        print("  subcheck=%s: %s" % (sname, msg[:1000]))
    for he in harness_errors:
        print("HARNESS-ERROR %s" % he)

    if args.san_pass:
        with open(args.san_pass, "w") as fh:
            json.dump({"evaluations": evaluations, "violations": len(violations),
                       "harness_errors": harness_errors[:5], "wall_s": round(wall, 1),
                       "build": os.path.basename(treedir)}, fh)
    if not args.no_evidence and not args.only and not args.san_pass:
        ev = {
            "property_id": pid, "tier": tier, "seed": seed, "level": "exploration",
            "coverage": {
                "evaluations": evaluations,
                "distinct_nontrivial": len(nt_all),
                "rule": getattr(mod, "RULE", ""),
                "samples": first + first_nt,
                "classes": dict(sorted(classes.items())),
                "subchecks": {k: {"evaluations": v["evaluations"], "distinct_nontrivial": len(v["nt"]),
                                  "tasks": v["tasks"], "cpu_s": round(v["wall_s"], 2)}
                              for k, v in sorted(per_sub.items())},
                "excluded_known": excluded,
                "notes": dict(sorted(notes.items())),
                "replays_run": replays_run,
                "exhaustive": bool(getattr(mod, "EXHAUSTIVE", False)) and False,
                "exhaustive_subdomains": sorted(set(exhaustive_done)),
                "known_findings_open": [f["key"] for f in open_f],
                "timed_out": timed_out,
                "sanitizer_pass": san,
                "harness_errors": len(harness_errors),
                "repo": build.repo_dir(), "build": os.path.basename(treedir),
            },
            "assumptions": list(getattr(mod, "ASSUMPTIONS", [])),
            "wall_s": round(wall, 2),
            "violations": len(violations) + san_violations,
        }
        evdir = os.path.join(HERE, "evidence")
        os.makedirs(evdir, exist_ok=True)
        tmp = os.path.join(evdir, ".%s.json.tmp" % pid)
        with open(tmp, "w") as fh:
            json.dump(ev, fh, indent=1)
            fh.write("\n")
        os.rename(tmp, os.path.join(evdir, "%s.json" % pid))

    print("%s tier=%s seed=%d: %d evaluations, %d distinct non-trivial, %d sub-checks, %d replays, "
          "%d violations, %.1fs" % (pid, tier, seed, evaluations, len(nt_all), len(per_sub),
                                    replays_run, len(violations), wall))
    if violations or san_violations:
        return 1
    if harness_errors:
        return 2
    return 0


def _sanitizer_pass(pid, args, workdir):
    """Re-run a reduced thorough tier in a fresh interpreter against an AddressSanitizer build of
    the extensions (an amplifier of the same generated cases: an out-of-bounds access kills the
    worker and the crash journal turns the case into a violation)."""
    import subprocess
    summary = os.path.join(workdir, "san-summary.json")
    try:
        libasan = subprocess.run(["gcc", "-print-file-name=libasan.so"], stdout=subprocess.PIPE,
                                 text=True).stdout.strip()
    except OSError as e:
        return {"error": "gcc not available: %s" % e}
    if not os.path.isabs(libasan) or not os.path.exists(libasan):
        return {"error": "libasan.so not found (%r)" % libasan}
    env = dict(os.environ)
    env["LD_PRELOAD"] = libasan
    env["ASAN_OPTIONS"] = "detect_leaks=0:abort_on_error=1:allocator_may_return_null=1"
    scale = args.scale * float(getattr(sys.modules.get("checks_" + pid), "SANITIZE_SCALE", 0.05))
    cmd = [sys.executable, "-B", "-m", "vp.runner", pid, "--tier", "thorough", "--scale", repr(scale),
           "--san-pass", summary]
    p = subprocess.run(cmd, cwd=HERE, env=env, stdout=subprocess.PIPE, stderr=subprocess.STDOUT, text=True,
                       errors="replace")
    for ln in p.stdout.splitlines():
        if ln.startswith(("VIOLATION", "  subcheck=", "HARNESS-ERROR")):
            print(ln if not ln.startswith("HARNESS-ERROR") else "[san] " + ln)
    if not os.path.exists(summary):
        return {"error": "no summary (exit %d): %s" % (p.returncode, p.stdout[-1500:])}
    with open(summary) as fh:
        out = json.load(fh)
    if p.returncode == 2 and not out.get("harness_errors"):
        out["error"] = "exit 2"
    elif p.returncode == 2:
        out["error"] = "; ".join(out["harness_errors"])[:1500]
    return out


if __name__ == "__main__":
    sys.exit(main())
