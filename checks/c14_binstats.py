"""C14 -- per-bin statistics and equal-occupancy bins equal direct computation.

Oracle: the members of every bin come from the brute-force model of vp/oracle/histmodel.py
(the reported reverse indices are first verified against it, see C05); every statistic is then
recomputed here from those members in longdouble.  Nothing of esutil computes an expectation.
"""
import numpy as np
from hypothesis import strategies as st

from vp.gen import layouts as LY
from vp.api import Raised, Subcheck, require, sut
from vp.case import dec, enc
from vp.oracle import histmodel as hm

PROPERTY = "C14"
RULE = ("x of size 1..200 (floats over 9 decades, pools of <=6 values, integer-valued, values on base+k*step "
        "grids incl. inexact steps, constant, single element), optional second variable y, optional weights "
        "(all equal; log-uniform over 12 decades; small integers; a drawn subset exactly zero, never all) x "
        "fixed-width binning (binsize | nbin, min/max absent / at a datum / inside / outside / beyond all data) "
        "through Binner.dohist (rev on/off, calc_stats inline or called later) and histogram(more=True | weights=); "
        "equal-occupancy binning nperbin in 1..N x mergelast on/off x min/max through both entry points. "
        "Non-trivial: fixed-width with >=1 empty bin and >=1 single-member bin and >=1 bin with >=2 members; "
        "or nperbin with a non-zero remainder. Distinct = distinct case JSON."
        " x/y/weights are handed over as contiguous, strided, negative-stride, record-field or byte-swapped arrays; the Binner may have been used once with other limits before the judged call.")
ASSUMPTIONS = [
    "finite data, |x|,|y| <= 1e9; weights >= 0 with positive total; weighted quantities are constrained only "
    "for bins whose total weight is positive (a bin of zero-weight members has no defined weighted mean)",
    "err / werr / werr2 are constrained only for bins with >= 2 members (statement); for single-member bins only "
    "mean, median, std=0, whist, wmean, wstd=0",
    "tolerance 1e-12 relative to the largest |member value| of the bin (mean/std/err/median/wmean/wstd/werr2), "
    "1e-12 relative for whist and werr; bin edges 1e-12 relative to max(|min|,|max edge|,binsize)",
    "nbin= only with (max-min) > 0; derived bin count <= 2000",
    "a case whose strict float64 bin model differs from the reported counts only through inexact near-integer "
    "quotients (C05 near-edge rule) takes the (verified admissible) reported members; counted in notes",
    "with equal-occupancy bins the per-bin low/high are read from key 'low'/'high' (that is where Binner puts "
    "them, also when y is given)",
]
TECHNIQUE = ("property-based testing (Hypothesis): statistics recomputed in longdouble on the members given by a "
             "brute-force bin model; reverse indices verified against the model first")
LEVEL_TEXT = ("Generated-input search against direct computation on reference bins; shows the property on every "
              "generated case, never the absence of violations.")

SENT = -9999.0
# squares of deviations below ~1e-154 underflow in float64 (numpy's own std returns 0 there): absolute floor
ABS_FLOOR = 1e-150
NICE_STEPS = [0.25, 0.5, 1.0, 2.0, 3.0, 0.1, 1.0 / 3.0]
GRID_BASES = [0.0, -3.0, 0.5, 10.1, -7.3, 100.0]


# ----------------------------------------------------------------------------- generators

@st.composite
def _xdata(draw):
    family = draw(st.sampled_from(["decades", "pool", "intfloat", "grid", "grid", "spread", "const"]))
    nmax = draw(st.sampled_from([1, 2, 3, 5, 10, 10, 30, 30, 80, 200]))
    nmin = min(nmax, draw(st.sampled_from([1, 2, 4, 8])))
    info = {}
    if family == "decades":
        mag = st.floats(-3.0, 9.0).map(lambda e: 10.0 ** e)
        el = st.one_of(st.builds(lambda s, m: s * m, st.sampled_from([1.0, -1.0]), mag), st.floats(-1e3, 1e3))
        vals = draw(st.lists(el, min_size=nmin, max_size=nmax))
    elif family == "pool":
        pool = draw(st.lists(st.one_of(st.floats(-100, 100), st.integers(-5, 5).map(float)), min_size=1,
                             max_size=6))
        vals = draw(st.lists(st.sampled_from(pool), min_size=nmin, max_size=nmax))
    elif family == "intfloat":
        lo = draw(st.integers(-1000, 1000))
        w = draw(st.sampled_from([1, 3, 10, 40]))
        vals = [float(v) for v in draw(st.lists(st.integers(lo, lo + w), min_size=nmin, max_size=nmax))]
    elif family == "spread":
        # few points over a wide range: empty and single-member bins next to crowded ones
        c = draw(st.floats(-50, 50))
        vals = draw(st.lists(st.one_of(st.floats(0, 1).map(lambda t, c=c: c + t),
                                       st.floats(0, 20).map(lambda t, c=c: c + t)), min_size=nmin, max_size=nmax))
    elif family == "grid":
        base = draw(st.sampled_from(GRID_BASES))
        step = draw(st.sampled_from(NICE_STEPS))
        ks = draw(st.lists(st.integers(-2, draw(st.sampled_from([2, 5, 12, 40]))), min_size=nmin, max_size=nmax))
        vals = [base + k * step for k in ks]
        info = {"base": base, "step": step}
    else:
        v = draw(st.one_of(st.floats(-1e6, 1e6), st.integers(-5, 5).map(float)))
        vals = [v] * draw(st.integers(nmin, nmax))
    return family, vals, info


def _ylist(draw, n):
    kind = draw(st.sampled_from(["float", "int", "pool", "big"]))
    if kind == "float":
        el = st.floats(-1e3, 1e3)
    elif kind == "int":
        el = st.integers(-20, 20).map(float)
    elif kind == "pool":
        el = st.sampled_from(draw(st.lists(st.floats(-10, 10), min_size=1, max_size=3)))
    else:
        el = st.floats(-1e9, 1e9)
    return draw(st.lists(el, min_size=n, max_size=n))


def _wlist(draw, n):
    kind = draw(st.sampled_from(["equal", "decades", "ints", "unit"]))
    if kind == "equal":
        c = draw(st.sampled_from([1.0, 0.5, 3.0, 1e-6, 1e6]))
        w = [c] * n
    elif kind == "unit":
        w = draw(st.lists(st.floats(0.01, 1.0), min_size=n, max_size=n))
    elif kind == "ints":
        w = [float(v) for v in draw(st.lists(st.integers(1, 5), min_size=n, max_size=n))]
    else:
        w = draw(st.lists(st.floats(-6.0, 6.0).map(lambda e: 10.0 ** e), min_size=n, max_size=n))
    if n >= 2 and draw(st.booleans()):
        zeros = draw(st.lists(st.integers(0, n - 1), min_size=1, max_size=max(1, n // 2), unique=True))
        if len(zeros) < n:
            for i in zeros:
                w[i] = 0.0
    return kind, w


def _limit(draw, which, x64, info):
    dlo, dhi = float(x64.min()), float(x64.max())
    mode = draw(st.sampled_from(["none", "none", "none", "data", "inside", "outside", "edge", "beyond"]))
    if mode == "beyond" and draw(st.integers(0, 3)) != 0:
        mode = "none"
    if mode == "none":
        return None, mode
    if mode == "data":
        return float(x64[draw(st.integers(0, x64.size - 1))]), mode
    if mode == "inside":
        return dlo + draw(st.floats(0.0, 1.0)) * (dhi - dlo), mode
    if mode == "edge":
        if info:
            return info["base"] + draw(st.integers(-3, 42)) * info["step"], mode
        return (float(np.floor(dlo)) if which == "min" else float(np.ceil(dhi))), mode
    d = draw(st.sampled_from([0.5, 1.0, 10.0]))
    if mode == "outside":
        return (dlo - d, mode) if which == "min" else (dhi + d, mode)
    return (dhi + d, mode) if which == "min" else (dlo - d, mode)


def _limits(draw, x64, info):
    vmin, mmin = _limit(draw, "min", x64, info)
    vmax, mmax = _limit(draw, "max", x64, info)
    if vmin is not None and vmax is not None and vmin > vmax and "beyond" not in (mmin, mmax):
        vmin, vmax = vmax, vmin
    return vmin, vmax, mmin, mmax


@st.composite
def fixed_cases(draw):
    family, vals, info = draw(_xdata())
    n = len(vals)
    x64 = np.array(vals, dtype="f8")
    vmin, vmax, mmin, mmax = _limits(draw, x64, info)
    lo = float(x64.min()) if vmin is None else vmin
    hi = float(x64.max()) if vmax is None else vmax
    span = hi - lo
    spec = draw(st.sampled_from(["binsize", "binsize", "nbin"]))
    if not span > 0:
        spec = "binsize"
    binsize = nbin = None
    if spec == "nbin":
        nbin = draw(st.one_of(st.integers(1, 12), st.sampled_from([1, 2, 3, 7, 10, 50]), st.integers(1, 100)))
    else:
        if info and draw(st.integers(0, 3)) != 0:
            binsize = info["step"]
        else:
            binsize = draw(st.one_of(st.sampled_from(NICE_STEPS), st.floats(0.01, 100.0),
                                     st.integers(1, 40).map(lambda k, s=span: s / k if s > 0 else 1.0)))
        if not binsize > 0:
            binsize = 1.0           # span/k underflowed (subnormal span): the statement needs binsize > 0
        cap = 2000.0 if draw(st.integers(0, 100)) == 0 else 50.0
        if span > 0 and span / binsize > cap:
            binsize = span / draw(st.integers(1, 40))
            if not binsize > 0:
                binsize = 1.0
    entry = draw(st.sampled_from(["binner", "binner", "binner-late", "histogram"]))
    y = w = None
    wkind = "none"
    if entry != "histogram" and draw(st.booleans()):
        y = _ylist(draw, n)
    if draw(st.integers(0, 2)) != 0:
        wkind, w = _wlist(draw, n)
    rev = draw(st.booleans())
    return {"kind": "fixed", "family": family, "x": enc(vals), "y": enc(y), "w": enc(w), "wkind": wkind,
            "binsize": binsize, "nbin": nbin, "min": enc(vmin), "max": enc(vmax), "min_mode": mmin,
            "max_mode": mmax, "entry": entry, "rev": rev, "layout": draw(st.sampled_from(LY.KINDS)),
            "before": draw(st.sampled_from([None, None, "min-cut", "max-cut", "both", "nper"]))
            if entry != "histogram" else None}


@st.composite
def nper_cases(draw):
    family, vals, info = draw(_xdata())
    n = len(vals)
    x64 = np.array(vals, dtype="f8")
    vmin, vmax, mmin, mmax = _limits(draw, x64, info)
    nper = draw(st.one_of(st.integers(1, n), st.integers(1, min(n, 5)), st.sampled_from([1, 2, 3, n])))
    nper = max(1, min(nper, n))
    entry = draw(st.sampled_from(["binner", "binner-late", "histogram"]))
    y = w = None
    wkind = "none"
    if entry != "histogram" and draw(st.booleans()):
        y = _ylist(draw, n)
    if draw(st.booleans()):
        wkind, w = _wlist(draw, n)
    return {"kind": "nper", "family": family, "x": enc(vals), "y": enc(y), "w": enc(w), "wkind": wkind,
            "nperbin": nper, "mergelast": draw(st.sampled_from([True, False, None])),
            "min": enc(vmin), "max": enc(vmax), "min_mode": mmin, "max_mode": mmax, "entry": entry,
            "rev": draw(st.booleans()), "layout": draw(st.sampled_from(LY.KINDS)),
            "before": draw(st.sampled_from([None, None, "min-cut", "max-cut", "both", "nper"]))
            if entry != "histogram" else None}


# ----------------------------------------------------------------------------- oracle

LD = np.longdouble


def _direct(v):
    """mean, population std, median of the float64 values v (>=1) computed directly."""
    vl = v.astype(LD)
    n = v.size
    mean = vl.sum() / n
    std = np.sqrt(((vl - mean) ** 2).sum() / n)
    s = np.sort(v)
    med = s[n // 2] if n % 2 else (LD(s[n // 2 - 1]) + LD(s[n // 2])) / 2
    return float(mean), float(std), float(med)


def _wdirect(v, w):
    vl, wl = v.astype(LD), w.astype(LD)
    wt = wl.sum()
    m = (wl * vl).sum() / wt
    sd = np.sqrt((wl * (vl - m) ** 2).sum() / wt)
    e1 = 1.0 / np.sqrt(wt)
    e2 = np.sqrt((wl ** 2 * (vl - m) ** 2).sum()) / wt
    return float(m), float(sd), float(e1), float(e2)


def _near(got, exp, scale):
    return abs(float(got) - float(exp)) <= 1e-12 * scale + ABS_FLOOR


def _check_stats(b, pref, v, w, members, ctx, what):
    """Compare the statistics of variable `v` (x or y) reported under prefix `pref`."""
    nb = len(members)
    names = [pref + k for k in ("mean", "std", "err", "median")]
    for k in names:
        require(k in b, "%s: key %r missing from the result", what, k)
        require(np.asarray(b[k]).shape == (nb,), "%s: %r has shape %r, expected (%d,)", what, k,
                np.asarray(b[k]).shape, nb)
    wnames = []
    if w is not None:
        wnames = ["w" + pref + k for k in ("mean", "std", "err", "err2")]
        for k in wnames + ["whist"]:
            require(k in b, "%s: key %r missing from the result", what, k)
            require(np.asarray(b[k]).shape == (nb,), "%s: %r has wrong shape", what, k)
    for i, m in enumerate(members):
        if m.size == 0:
            for k in names + wnames:
                require(b[k][i] == SENT, "%s: empty bin %d has %s=%r, expected the sentinel -9999", what, i, k,
                        b[k][i])
            if w is not None:
                require(b["whist"][i] == 0, "%s: empty bin %d has whist=%r", what, i, b["whist"][i])
            continue
        vals = v[m]
        scale = float(np.abs(vals).max())
        mean, std, med = _direct(vals)
        tag = "%s: bin %d (members %r, values %r)" % (what, i, m.tolist()[:12], vals.tolist()[:12])
        require(_near(b[pref + "mean"][i], mean, scale), "%s: %smean=%r, direct %r", tag, pref,
                b[pref + "mean"][i], mean)
        require(_near(b[pref + "std"][i], std, scale), "%s: %sstd=%r, direct %r", tag, pref, b[pref + "std"][i], std)
        require(_near(b[pref + "median"][i], med, scale), "%s: %smedian=%r, direct %r", tag, pref,
                b[pref + "median"][i], med)
        if m.size >= 2:
            err = std / np.sqrt(m.size)
            require(_near(b[pref + "err"][i], err, scale), "%s: %serr=%r, direct std/sqrt(n)=%r", tag, pref,
                    b[pref + "err"][i], err)
        if w is not None:
            ww = w[m]
            wt = float(ww.astype(LD).sum())
            require(abs(float(b["whist"][i]) - wt) <= 1e-12 * wt, "%s: whist=%r, sum of member weights %r "
                    "(weights %r)", tag, b["whist"][i], wt, ww.tolist()[:12])
            if not wt > 0:
                ctx.count("zero-weight-bin-unconstrained")
                continue
            wm, wsd, e1, e2 = _wdirect(vals, ww)
            require(_near(b["w" + pref + "mean"][i], wm, scale), "%s: w%smean=%r, direct %r (weights %r)", tag,
                    pref, b["w" + pref + "mean"][i], wm, ww.tolist()[:12])
            require(_near(b["w" + pref + "std"][i], wsd, scale), "%s: w%sstd=%r, direct %r (weights %r)", tag, pref,
                    b["w" + pref + "std"][i], wsd, ww.tolist()[:12])
            if m.size >= 2:
                require(abs(float(b["w" + pref + "err"][i]) - e1) <= 1e-12 * e1,
                        "%s: w%serr=%r, direct 1/sqrt(sum w)=%r", tag, pref, b["w" + pref + "err"][i], e1)
                require(_near(b["w" + pref + "err2"][i], e2, scale),
                        "%s: w%serr2=%r, direct sqrt(sum w^2 (v-m)^2)/sum w = %r (weights %r)", tag, pref,
                        b["w" + pref + "err2"][i], e2, ww.tolist()[:12])


def _arrays(case):
    x = np.array(dec(case["x"]), dtype="f8")
    y = None if case["y"] is None else np.array(dec(case["y"]), dtype="f8")
    w = None if case["w"] is None else np.array(dec(case["w"]), dtype="f8")
    return x, y, w, dec(case["min"]), dec(case["max"])


def _run(case, x, y, w, kw):
    """Call the entry point; returns the result dict or Raised."""
    import esutil.stat as es
    if case["entry"] == "histogram":
        hk = dict(kw)
        if w is not None:
            hk["weights"] = w
            if case["rev"]:
                hk["more"] = True       # both routes to the dictionary
        else:
            hk["more"] = True
        lay = case.get("layout", "contig")
        if "weights" in hk:
            hk["weights"] = LY.relayout(w, lay)
        return sut(es.histogram, LY.relayout(x, lay), **hk)
    lay = case.get("layout", "contig")
    b = es.Binner(LY.relayout(x, lay), y=None if y is None else LY.relayout(y, lay),
                  weights=None if w is None else LY.relayout(w, lay))
    # the object may have been used before with other settings: nothing of that call (limits, range selection,
    # bin layout, statistics) may leak into the call that is judged below
    before = case.get("before")
    if before:
        xs = np.sort(x)
        cut_lo, cut_hi = float(xs[xs.size // 3]), float(xs[(2 * xs.size) // 3])
        pk = {"min-cut": {"min": cut_lo}, "max-cut": {"max": cut_hi}, "both": {"min": cut_lo, "max": cut_hi},
              "nper": {"nperbin": max(1, x.size // 2)}}[before]
        if "nperbin" not in pk:
            pk["nbin"] = 3
        sut(b.dohist, rev=True, **pk)
    if case["entry"] == "binner-late":
        r = sut(b.dohist, calc_stats=False, rev=case["rev"], **kw)
        if isinstance(r, Raised):
            return r
        r = sut(b.calc_stats)
        if isinstance(r, Raised):
            return r
        return b
    r = sut(b.dohist, rev=case["rev"], **kw)
    return r if isinstance(r, Raised) else b


def check_fixed(case, ctx):
    x, y, w, vmin, vmax = _arrays(case)
    d = hm.derive(x, case["binsize"], case["nbin"], vmin, vmax)
    kw = {"min": vmin, "max": vmax}
    if case["nbin"] is not None:
        kw["nbin"] = case["nbin"]
    else:
        kw["binsize"] = case["binsize"]
    b = _run(case, x, y, w, kw)
    if not hm.in_limits(x, d["lo"], d["hi"]).any():
        require(isinstance(b, Raised) and isinstance(b.exc, ValueError),
                "no datum within [min,max]: the documented ValueError is expected, got %r", b)
        ctx.count("rejected-empty-range")
        return
    require(not isinstance(b, Raised), "raised on valid input: %r", b)
    require(isinstance(b, dict) and "hist" in b, "result is not a dictionary with 'hist'")
    hist = np.asarray(b["hist"])
    nbin = hist.size
    require(nbin in d["nbin_alt"], "%d bins, documented derivation gives %s", nbin, sorted(d["nbin_alt"]))
    pref = "x" if y is not None else ""
    # edges
    escale = max(abs(float(d["lo"])), abs(float(d["lo"]) + nbin * d["binsize"]), abs(d["binsize"]))
    low = float(d["lo"]) + np.arange(nbin, dtype=LD) * LD(d["binsize"])
    for key, exp in (("low", low), ("high", low + LD(d["binsize"])), ("center", low + LD(d["binsize"]) / 2)):
        require(pref + key in b, "key %r missing", pref + key)
        got = np.asarray(b[pref + key])
        require(got.shape == (nbin,), "%r has shape %r", pref + key, got.shape)
        bad = np.abs(got.astype(LD) - exp) > 1e-12 * escale + ABS_FLOOR      # (subnormal edges: half a bin rounds)
        require(not bad.any(), "%s[%d]=%r, expected min+i*binsize -> %r", pref + key,
                int(np.argmax(bad)), got[int(np.argmax(bad))], float(exp[int(np.argmax(bad))]))
    # members
    a = hm.assign(x, d["lo"], d["hi"], d["binsize"], nbin)
    model_counts = np.bincount(a[a >= 0], minlength=nbin)
    want_rev = case["rev"] or y is not None or w is not None or case["entry"] == "histogram"
    if "rev" in b:
        msg = hm.verify_partition(x, d["lo"], d["hi"], d["binsize"], hist, b["rev"])
        require(msg is None, "%s", msg)
    else:
        require(not want_rev, "reverse indices were requested/implied but 'rev' is missing")
    if np.array_equal(model_counts, hist):
        members = hm.members(x, a, nbin)
    else:
        amb = any(len(hm.allowed_bins(x[i], d["lo"], d["hi"], d["binsize"], nbin)) > 1 for i in range(x.size))
        require(amb, "hist=%r differs from the reference counts %r", hist.tolist()[:60],
                model_counts.tolist()[:60])
        ctx.count("near-edge-ambiguity")
        if "rev" not in b:
            return
        r = np.asarray(b["rev"])
        members = [r[r[i]:r[i + 1]].astype("i8") for i in range(nbin)]
    if "rev" in b:
        r = np.asarray(b["rev"])
        for i, m in enumerate(members):
            require(np.array_equal(r[r[i]:r[i + 1]], m), "rev slice of bin %d is %r, reference members %r", i,
                    r[r[i]:r[i + 1]].tolist()[:30], m.tolist()[:30])
        _check_stats(b, pref, x, w, members, ctx, "x")
        if y is not None:
            _check_stats(b, "y", y, w, members, ctx, "y")


def check_nper(case, ctx):
    x, y, w, vmin, vmax = _arrays(case)
    kw = {"min": vmin, "max": vmax, "nperbin": case["nperbin"]}
    ml = case["mergelast"]
    if ml is not None:
        kw["mergelast"] = ml
    else:
        ml = True           # documented default
    b = _run(case, x, y, w, kw)
    lo = x.min() if vmin is None else vmin
    hi = x.max() if vmax is None else vmax
    if not hm.in_limits(x, lo, hi).any():
        require(isinstance(b, Raised) and isinstance(b.exc, ValueError),
                "no datum within [min,max]: the documented ValueError is expected, got %r", b)
        ctx.count("rejected-empty-range")
        return
    require(not isinstance(b, Raised), "raised on valid input: %r", b)
    chunks = hm.nperbin_members(x, case["nperbin"], ml, vmin, vmax)
    nb = len(chunks)
    for k in ("hist", "rev", "low", "high"):
        require(k in b, "key %r missing from the equal-occupancy result", k)
    hist, rev = np.asarray(b["hist"]), np.asarray(b["rev"])
    sizes = [c.size for c in chunks]
    require(hist.tolist() == sizes, "hist=%r, expected occupancies %r (nperbin=%d mergelast=%r, %d in range)",
            hist.tolist()[:40], sizes[:40], case["nperbin"], ml, sum(sizes))
    require(rev.dtype.kind in "iu" and rev.ndim == 1 and rev.size >= nb + 1, "rev malformed: %r", rev)
    require(int(rev[0]) == nb + 1, "rev[0]=%d, expected nbin+1=%d", rev[0], nb + 1)
    require(int(rev[nb]) <= rev.size, "rev[nbin]=%d exceeds rev.size=%d", rev[nb], rev.size)
    for i, c in enumerate(chunks):
        sl = rev[rev[i]:rev[i + 1]]
        require(np.array_equal(sl, c), "rev slice of bin %d is %r; the bin holds original indices %r", i,
                sl.tolist()[:30], c.tolist()[:30])
        require(float(b["low"][i]) == float(x[c].min()) and float(b["high"][i]) == float(x[c].max()),
                "bin %d: low/high=%r/%r, smallest/largest member %r/%r", i, b["low"][i], b["high"][i],
                float(x[c].min()), float(x[c].max()))
    require(np.asarray(b["low"]).shape == (nb,) and np.asarray(b["high"]).shape == (nb,),
            "low/high have the wrong length")
    require(b.get("nperbin") == case["nperbin"], "'nperbin' entry is %r", b.get("nperbin"))
    pref = "x" if y is not None else ""
    _check_stats(b, pref, x, w, chunks, ctx, "x")
    if y is not None:
        _check_stats(b, "y", y, w, chunks, ctx, "y")


# ----------------------------------------------------------------------------- classes

def classify(case):
    x, y, w, vmin, vmax = _arrays(case)
    labs = ["layout:" + case.get("layout", "contig"), "before:%s" % case.get("before"),
            "family:" + case["family"], "entry:" + case["entry"], "weights:" + case["wkind"],
            "y:" + ("yes" if y is not None else "no"), "min:" + case["min_mode"], "max:" + case["max_mode"],
            "rev:%s" % case["rev"]]
    if w is not None and (w == 0).any():
        labs.append("zero-weights")
    lo = x.min() if vmin is None else vmin
    hi = x.max() if vmax is None else vmax
    inl = hm.in_limits(x, lo, hi)
    if not inl.any():
        labs.append("empty-range(ValueError)")
        return labs
    if case["kind"] == "nper":
        nin = int(inl.sum())
        rem = nin % case["nperbin"]
        labs.append("mergelast:%s" % case["mergelast"])
        labs.append("nbins:%s" % min(3, -(-nin // case["nperbin"])))
        if rem:
            labs.append("nt:remainder")
        if np.unique(x[inl]).size < nin:
            labs.append("tie")
        return labs
    d = hm.derive(x, case["binsize"], case["nbin"], vmin, vmax)
    a = hm.assign(x, d["lo"], d["hi"], d["binsize"], d["nbin"])
    cnt = np.bincount(a[a >= 0], minlength=d["nbin"])
    labs.append("spec:" + ("nbin" if case["nbin"] is not None else "binsize"))
    e, s, m = bool((cnt == 0).any()), bool((cnt == 1).any()), bool((cnt >= 2).any())
    if e:
        labs.append("has-empty-bin")
    if s:
        labs.append("has-single-member-bin")
    if m:
        labs.append("has-multi-member-bin")
    if (inl & (a < 0)).any():
        labs.append("in-range-beyond-last-bin")
    if w is not None and s:
        labs.append("weighted-single-member-bin")
    if w is not None:
        wb = np.bincount(a[a >= 0], weights=w[a >= 0], minlength=d["nbin"])
        if ((cnt > 0) & (wb == 0)).any():
            labs.append("zero-total-weight-bin")
    if e and s and m:
        labs.append("nt:empty+single+multi")
    return labs


SANITIZE = True        # thorough tier: reduced pass against an ASan build of the extensions
SANITIZE_SCALE = 0.03

SUBCHECKS = [
    Subcheck("fixed", fixed_cases, check_fixed, classify, quick=7500, thorough=100000, journal=True, shards=8),
    Subcheck("nperbin", nper_cases, check_nper, classify, quick=4500, thorough=60000, journal=True),
]
