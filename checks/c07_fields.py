"""C07 -- structured-array field operations preserve data, types and documented order.

Oracle: a descr-level field algebra on the drawn field *specs* (never on esutil output and not
on ``arr.dtype.descr``): the expected dtype is rebuilt from the specs the documented rule
selects, and the data of every retained field are compared as raw bytes cut out of the packed
records at the offsets the specs imply.
"""
import numpy as np
from hypothesis import strategies as st

from vp.api import Raised, Subcheck, must, require, sut
from vp.gen import structarrays as sa

PROPERTY = "C07"
RULE = ("packed structured arrays: 1..6 fields named from a pool with case variants (x/X, id/ID, Ab/aB), "
        "base types i1..u8, f4, f8, c8, c16, bool, S1..S8, U1..U3, each multi-byte field in its own drawn "
        "byte order, scalar or sub-array (1..3 dims) fields, array shapes (), (n,) n=0..9, (n,m); bodies "
        "are raw bit patterns expanded from a drawn seed.  Name selections are drawn sub-sequences in "
        "drawn order (optionally with unknown names and, where harmless, duplicates) passed as scalar, "
        "list, tuple or ndarray where documented; add_fields descriptors as list or dtype with defaults "
        "absent / scalar / field-shaped / full-shaped; 1..4 arrays to combine; all documented rejections. "
        "Non-trivial: (>=3 fields with a sub-array or non-native field and a selection that is a proper "
        "re-ordered subset -- for functions without a selection: and >=2 arrays / defaults given / a "
        "proper subset of common fields) or a 0-d/2-d input.  Distinct = distinct case JSON.")
RULE += (" " + 'Also: one array in forty has 2^16..2^18 (+1) elements.')
ASSUMPTIONS = [
    "dtypes are packed, not nested, without titles; field names are identifiers",
    "remove_fields and copy_fields_by_name are only given existing names (their treatment of unknown "
    "names is not documented); reorder_fields selections hold no duplicates",
    "fields common to the two arrays of copy_fields / compare_arrays have the same base type and "
    "sub-array shape (byte order may differ)",
    "compare_arrays is exercised on NaN-free data (the statement's restriction) with verbose=False",
    "default values handed to add_fields / copy_fields_by_name are exactly representable in the field type",
]
TECHNIQUE = ("property-based testing (Hypothesis) against a descr-level field-list algebra on the drawn "
             "field specs with raw-byte comparison of every retained field")
LEVEL_TEXT = ("exploration: generated packed structured arrays x name selections x 9 functions (plus the "
              "recfile.Util copy of split_fields); no proof of absence")

CONTAINERS = ["list", "list", "tuple", "array", "scalar"]


# ------------------------------------------------------------------ reference helpers

def _fsize(spec):
    return np.dtype(sa.typestr(spec[1], "<")).itemsize * (int(np.prod(spec[3])) if len(spec[3]) else 1)


def _offsets(fields):
    out, off = {}, 0
    for spec in fields:
        out[spec[0]] = (off, _fsize(spec))
        off += _fsize(spec)
    return out, off


def raw_records(arr, fields):
    """uint8 array (nrec, itemsize) of the packed records of `arr` in C order."""
    _, item = _offsets(fields)
    buf = np.ascontiguousarray(arr).tobytes()
    return np.frombuffer(buf, dtype="u1").reshape(-1, item) if item else np.zeros((0, 0), "u1")


def field_bytes(arr, fields, name):
    """Bytes of one field of every record, cut out of the raw buffer."""
    offs, _ = _offsets(fields)
    off, size = offs[name]
    return raw_records(arr, fields)[:, off:off + size].tobytes()


def _names(fields):
    return [f[0] for f in fields]


def _by_name(fields):
    return {f[0]: f for f in fields}


def _wrap(sel, container):
    if container == "scalar":
        return sel[0]
    if container == "tuple":
        return tuple(sel)
    if container == "array":
        return np.array(sel) if len(sel) else np.array([], dtype="U1")
    return list(sel)


def require_result(res, arr, snap, fields, exp_fields, what, src=None):
    """Common oracle: `res` is a fresh array of arr's shape with exactly exp_fields; the fields
    present in `fields` carry arr's bytes."""
    require(isinstance(res, np.ndarray), "%s returned %r", what, type(res))
    exp_dtype = sa.make_dtype(exp_fields)
    require(res.dtype.names == tuple(_names(exp_fields)), "%s: field list is %r, documented order gives %r",
            what, res.dtype.names, tuple(_names(exp_fields)))
    require(res.dtype == exp_dtype and res.dtype.descr == exp_dtype.descr,
            "%s: dtype %s, expected %s (type, sub-array shape or byte order of a field changed)", what,
            res.dtype, exp_dtype)
    require(res.shape == arr.shape, "%s: result shape %r, input shape %r", what, res.shape, arr.shape)
    require(res is not arr and not np.shares_memory(res, arr), "%s: result shares memory with the input", what)
    have = _by_name(fields)
    for spec in exp_fields:
        if spec[0] in have:
            require(field_bytes(res, exp_fields, spec[0]) == field_bytes(arr, fields, spec[0]),
                    "%s: data of field %r differ from the input", what, spec[0])
    require_unchanged(arr, snap, what)


def snapshot(arr):
    return (np.dtype(arr.dtype), arr.shape, np.ascontiguousarray(arr).tobytes())


def require_unchanged(arr, snap, what):
    require(snapshot(arr) == snap, "%s modified its input array", what)


def require_valueerror(r, what):
    require(isinstance(r, Raised), "%s must be rejected, but returned %r", what,
            getattr(r, "dtype", r))
    require(isinstance(r.exc, ValueError), "%s must raise ValueError, raised %r", what, r)


# ------------------------------------------------------------------ shared strategies

@st.composite
def tables(draw, min_fields=1, max_fields=6, exclude=(), nan_free=False):
    rich = draw(st.booleans())
    fields = draw(sa.field_specs(3 if rich and max_fields >= 3 else min_fields, max_fields,
                                 exclude_names=exclude))
    if rich and not (sa.has_subarray(fields) or sa.has_nonnative(fields)):
        f = fields[draw(st.integers(0, len(fields) - 1))]
        if sa.is_multibyte(f[1]):
            f[2] = sa.SWAPPED
        else:
            f[3] = [2]
    return fields


@st.composite
def selections(draw, names, unknown=False, duplicates=False, allow_empty=False, proper=False):
    hi = len(names) - (1 if proper else 0)
    k = draw(st.integers(0 if allow_empty else 1, max(hi, 0 if allow_empty else 1)))
    k = min(k, len(names))
    perm = draw(st.permutations(names))[:k]
    if draw(st.integers(0, 3)) == 0:
        perm = [n for n in names if n in perm]              # original order
    sel = list(perm)
    if duplicates and sel and draw(st.integers(0, 5)) == 0:
        sel.insert(draw(st.integers(0, len(sel))), draw(st.sampled_from(sel)))
    if unknown:
        # unknown names: unrelated ones and near misses of existing names (an existing name extended,
        # truncated or in another case -- a lookup that truncates or normalises would find a field)
        near = []
        for n in names:
            near += [n + "_err", n + "2", n + n, n[:-1], n.upper(), n.lower(), " " + n, n + " "]
        pool = [n for n in sa.NAME_POOL + ["", "a ", "nosuch"] + near if n not in names]
        for _ in range(draw(st.integers(1, 2))):
            sel.insert(draw(st.integers(0, len(sel))), draw(st.sampled_from(pool)))
    return sel


def _container_for(draw, sel, allowed=CONTAINERS):
    c = draw(st.sampled_from(allowed))
    if c == "scalar" and len(sel) != 1:
        c = "list"
    return c


def _shape_labels(case):
    nd = len(case["shape"])
    labs = ["ndim:%d" % nd]
    if 0 in case["shape"]:
        labs.append("empty")
    if nd != 1:
        labs.append("nt:0d-or-2d")
    return labs


def _rich(fields):
    return len(fields) >= 3 and (sa.has_subarray(fields) or sa.has_nonnative(fields))


def _dtype_labels(fields):
    labs = ["nfields:%s" % (len(fields) if len(fields) < 4 else "4-8" if len(fields) <= 8 else "9+")]
    if sa.has_subarray(fields):
        labs.append("subarray-field")
    if sa.has_nonnative(fields):
        labs.append("nonnative-field")
    if any(f[1][0] in "SU" for f in fields):
        labs.append("string-field")
    return labs


def _sel_labels(case, fields):
    names = _names(fields)
    sel = [n for n in case["sel"] if n in names]
    uniq = []
    for n in sel:
        if n not in uniq:
            uniq.append(n)
    labs = ["container:" + case["container"]]
    if any(n not in names for n in case["sel"]):
        labs.append("unknown-name")
    if len(uniq) < len(sel):
        labs.append("duplicate-name")
    proper = 0 < len(uniq) < len(names)
    reordered = uniq != [n for n in names if n in uniq]
    if proper:
        labs.append("proper-subset")
    if reordered:
        labs.append("reordered")
    if _rich(fields) and proper and reordered:
        labs.append("nt:reordered-proper-subset")
    return labs


# ------------------------------------------------------------------ extract_fields

@st.composite
def extract_cases(draw):
    fields = draw(tables())
    names = _names(fields)
    mode = draw(st.sampled_from(["ok", "ok", "ok", "ok", "unknown", "unknown", "none"]))
    strict = draw(st.booleans())
    if mode == "none":
        sel = draw(selections([n for n in sa.NAME_POOL if n not in names][:4], allow_empty=True))
        strict = False if sel else strict
    else:
        sel = draw(selections(names, unknown=(mode == "unknown"), duplicates=True))
    return {"fields": fields, "shape": draw(sa.array_shapes), "seed": draw(sa.seeds), "sel": sel,
            "container": _container_for(draw, sel), "strict": strict}


def check_extract(case, ctx):
    import esutil.numpy_util as nu
    fields, sel = case["fields"], case["sel"]
    arr = sa.make_array(fields, case["shape"], case["seed"])
    snap = snapshot(arr)
    arg = _wrap(sel, case["container"])
    names = _names(fields)
    missing = [n for n in sel if n not in names]
    keep = [f for f in fields if f[0] in sel]
    what = "extract_fields(%r, strict=%s)" % (arg, case["strict"])
    if (missing and case["strict"]) or not keep:
        r = sut(nu.extract_fields, arr, arg, strict=case["strict"])
        require_valueerror(r, what + (" naming a missing field" if missing and case["strict"]
                                      else " keeping no field"))
        require_unchanged(arr, snap, what)
        return
    if case["strict"]:
        res = must(nu.extract_fields, arr, arg)              # strict=True is the default
    else:
        res = must(nu.extract_fields, arr, arg, strict=False)
    require_result(res, arr, snap, fields, keep, what)


def classify_extract(case):
    fields = case["fields"]
    names = _names(fields)
    labs = _shape_labels(case) + _dtype_labels(fields) + _sel_labels(case, fields)
    labs.append("strict:%s" % case["strict"])
    missing = any(n not in names for n in case["sel"])
    if missing and case["strict"]:
        labs.append("rejects:missing")
    elif not any(n in names for n in case["sel"]):
        labs.append("rejects:nothing-kept")
    return labs


# ------------------------------------------------------------------ remove_fields

@st.composite
def remove_cases(draw):
    fields = draw(tables())
    names = _names(fields)
    if draw(st.integers(0, 6)) == 0:
        sel = draw(st.permutations(names))
    else:
        sel = draw(selections(names, duplicates=True, proper=len(names) > 1))
    return {"fields": fields, "shape": draw(sa.array_shapes), "seed": draw(sa.seeds), "sel": list(sel),
            "container": _container_for(draw, sel, ["list", "list", "scalar"])}


def check_remove(case, ctx):
    import esutil.numpy_util as nu
    fields, sel = case["fields"], case["sel"]
    arr = sa.make_array(fields, case["shape"], case["seed"])
    snap = snapshot(arr)
    arg = _wrap(sel, case["container"])
    keep = [f for f in fields if f[0] not in sel]
    what = "remove_fields(%r)" % (arg,)
    if not keep:
        require_valueerror(sut(nu.remove_fields, arr, arg), what + " removing every field")
        require_unchanged(arr, snap, what)
        return
    res = must(nu.remove_fields, arr, arg)
    require_result(res, arr, snap, fields, keep, what)


def classify_remove(case):
    fields = case["fields"]
    labs = _shape_labels(case) + _dtype_labels(fields) + _sel_labels(case, fields)
    if set(case["sel"]) >= set(_names(fields)):
        labs.append("rejects:all-removed")
    return labs


# ------------------------------------------------------------------ reorder_fields

@st.composite
def reorder_cases(draw):
    # one case in four is a wide table (9-12 fields): code may treat many-field records differently (round 10)
    wide = draw(st.sampled_from([False, False, False, True]))
    fields = draw(tables(min_fields=9, max_fields=12)) if wide else draw(tables())
    names = _names(fields)
    mode = draw(st.sampled_from(["ok", "ok", "ok", "unknown"]))
    sel = draw(selections(names, unknown=(mode == "unknown")))
    seen, uniq = set(), []
    for n in sel:                       # unknown names are drawn independently: drop repeats
        if n not in seen:
            seen.add(n)
            uniq.append(n)
    return {"fields": fields, "shape": draw(sa.array_shapes), "seed": draw(sa.seeds), "sel": uniq,
            "container": _container_for(draw, uniq), "strict": draw(st.booleans())}


def check_reorder(case, ctx):
    import esutil.numpy_util as nu
    fields, sel = case["fields"], case["sel"]
    arr = sa.make_array(fields, case["shape"], case["seed"])
    snap = snapshot(arr)
    arg = _wrap(sel, case["container"])
    have = _by_name(fields)
    missing = [n for n in sel if n not in have]
    what = "reorder_fields(%r, strict=%s)" % (arg, case["strict"])
    if missing and case["strict"]:
        require_valueerror(sut(nu.reorder_fields, arr, arg, strict=True), what + " naming a missing field")
        require_unchanged(arr, snap, what)
        return
    front = [have[n] for n in sel if n in have]
    exp = front + [f for f in fields if f[0] not in sel]
    arg_before = list(arg) if isinstance(arg, list) else None
    if case["strict"]:
        res = must(nu.reorder_fields, arr, arg)
    else:
        res = must(nu.reorder_fields, arr, arg, strict=False)
    require_result(res, arr, snap, fields, exp, what)
    if arg_before is not None:
        # the caller's list of names is his: a list reused for the next table must still say what he wrote
        require(arg == arg_before, "%s changed the caller's list of names to %r", what, arg)


def classify_reorder(case):
    fields = case["fields"]
    labs = _shape_labels(case) + _dtype_labels(fields) + _sel_labels(case, fields)
    labs.append("strict:%s" % case["strict"])
    if any(n not in _names(fields) for n in case["sel"]) and case["strict"]:
        labs.append("rejects:missing")
    return labs


# ------------------------------------------------------------------ add_fields

DEFAULT_MODES = ["scalar", "npscalar", "field", "full"]


@st.composite
def add_cases(draw):
    fields = draw(tables(max_fields=5))
    names = _names(fields)
    new = draw(sa.field_specs(1, 3, exclude_names=names))
    case = {"fields": fields, "shape": draw(sa.array_shapes), "seed": draw(sa.seeds), "new": new,
            "as_dtype": draw(st.booleans()), "defaults": None, "bare": False, "clash": None}
    if draw(st.integers(0, 7)) == 0:
        case["clash"] = [draw(st.integers(0, len(new) - 1)), draw(st.sampled_from(names))]
    if draw(st.integers(0, 2)) > 0:
        case["defaults"] = [draw(st.sampled_from(DEFAULT_MODES)) for _ in new]
        case["bare"] = len(new) == 1 and draw(st.booleans())
    return case


def _default_value(rng, spec, mode, shape):
    """-> (value handed to esutil, expected array of shape shape+fshape in the field's dtype)."""
    name, base, order, fshape = spec
    fshape = tuple(fshape)
    dt = sa.field_dtype(spec)
    if mode in ("scalar", "npscalar"):
        v = sa.fill_values(rng, base, 1, text_safe=True)[0]
        val = v.item() if mode == "scalar" else v
    elif mode == "field":
        n = int(np.prod(fshape)) if fshape else 1
        val = sa.fill_values(rng, base, n, text_safe=True).reshape(fshape)
    else:
        n = (int(np.prod(shape, dtype=np.int64)) if shape else 1) * (int(np.prod(fshape)) if fshape else 1)
        val = sa.fill_values(rng, base, n, text_safe=True).reshape(tuple(shape) + fshape)
    exp = np.zeros(tuple(shape) + fshape, dtype=dt)
    exp[...] = val
    return val, exp


def check_add(case, ctx):
    import esutil.numpy_util as nu
    fields, new, shape = case["fields"], [list(f) for f in case["new"]], tuple(case["shape"])
    arr = sa.make_array(fields, shape, case["seed"])
    snap = snapshot(arr)
    if case["clash"] is not None:
        new[case["clash"][0]][0] = case["clash"][1]
    descr = sa.spec_descr(new)
    arg = np.dtype(descr) if case["as_dtype"] and case["clash"] is None else descr
    if len(set(_names(new))) < len(new):
        raise AssertionError("harness: new field names are not distinct")
    rng = np.random.Generator(np.random.PCG64(case["seed"] ^ 0x5A5A5A))
    defaults, expected = None, {}
    if case["defaults"] is not None:
        defaults = []
        for spec, mode in zip(new, case["defaults"]):
            val, exp = _default_value(rng, spec, mode, shape)
            defaults.append(val)
            expected[spec[0]] = exp
        if case["bare"]:
            defaults = defaults[0]
    what = "add_fields(%r, defaults=%s)" % (descr, "None" if defaults is None else case["defaults"])
    if case["clash"] is not None:
        r = sut(nu.add_fields, arr, arg, defaults=defaults)
        require_valueerror(r, what + " adding the existing name %r" % case["clash"][1])
        require_unchanged(arr, snap, what)
        return
    if defaults is None:
        res = must(nu.add_fields, arr, arg)
    else:
        res = must(nu.add_fields, arr, arg, defaults=defaults)
    exp_fields = fields + new
    require_result(res, arr, snap, fields, exp_fields, what)
    for spec in new:
        got = field_bytes(res, exp_fields, spec[0])
        if defaults is None:
            require(got == bytes(len(got)), "%s: new field %r is not zero-filled", what, spec[0])
        else:
            require(got == expected[spec[0]].tobytes(), "%s: new field %r does not hold its default (%s)",
                    what, spec[0], case["defaults"][_names(new).index(spec[0])])


def classify_add(case):
    fields = case["fields"]
    labs = _shape_labels(case) + _dtype_labels(fields)
    labs.append("descr-as:%s" % ("dtype" if case["as_dtype"] else "list"))
    if case["clash"] is not None:
        labs.append("rejects:existing-name")
        return labs
    if case["defaults"] is None:
        labs.append("defaults:none")
    else:
        labs += ["default:" + m for m in sorted(set(case["defaults"]))]
        if case["bare"]:
            labs.append("default-not-in-list")
        if _rich(fields):
            labs.append("nt:defaults-on-rich-dtype")
    if sa.has_subarray(case["new"]):
        labs.append("new-subarray-field")
    if sa.has_nonnative(case["new"]):
        labs.append("new-nonnative-field")
    return labs


# ------------------------------------------------------------------ combine_fields

@st.composite
def combine_cases(draw):
    k = draw(st.sampled_from([1, 2, 2, 3, 3, 4]))
    total = draw(st.lists(st.sampled_from(sa.NAME_POOL), min_size=k, max_size=min(9, 3 * k), unique=True))
    cuts = sorted(draw(st.lists(st.integers(1, len(total) - 1), min_size=k - 1, max_size=k - 1,
                                unique=True))) if k > 1 else []
    groups = [total[a:b] for a, b in zip([0] + cuts, cuts + [len(total)])]
    tabs = []
    for g in groups:
        specs = draw(sa.field_specs(len(g), len(g)))
        for s, n in zip(specs, g):
            s[0] = n
        tabs.append(specs)
    mode = draw(st.sampled_from(["ok", "ok", "ok", "ok", "unequal", "shared"])) if k > 1 else "ok"
    shape = draw(sa.array_shapes)
    case = {"tables": tabs, "shape": shape, "seeds": [draw(sa.seeds) for _ in tabs], "mode": mode,
            "container": draw(st.sampled_from(["list", "tuple"]))}
    if mode == "unequal":
        if not shape:
            shape = case["shape"] = [2]
        case["odd"] = draw(st.integers(0, k - 1))
        case["odd_shape"] = shape[:-1] + [shape[-1] + draw(st.integers(1, 2))]
        if 0 in shape[:-1]:
            case["shape"] = shape = [3]
            case["odd_shape"] = [4]
    if mode == "shared":
        i = draw(st.integers(0, k - 2))
        j = draw(st.integers(i + 1, k - 1))
        case["shared"] = [i, draw(st.integers(0, len(tabs[i]) - 1)), j, draw(st.integers(0, len(tabs[j]) - 1))]
    return case


def check_combine(case, ctx):
    import esutil.numpy_util as nu
    tabs = [[list(f) for f in t] for t in case["tables"]]
    mode = case["mode"]
    if mode == "shared":
        i, fi, j, fj = case["shared"]
        tabs[j][fj][0] = tabs[i][fi][0]
    arrs = []
    for k, (t, seed) in enumerate(zip(tabs, case["seeds"])):
        shape = case["odd_shape"] if mode == "unequal" and k == case["odd"] else case["shape"]
        arrs.append(sa.make_array(t, shape, seed))
    snaps = [snapshot(a) for a in arrs]
    arg = tuple(arrs) if case["container"] == "tuple" else list(arrs)
    what = "combine_fields(%d arrays of shape %r)" % (len(arrs), tuple(case["shape"]))
    if mode in ("unequal", "shared"):
        r = sut(nu.combine_fields, arg)
        require_valueerror(r, what + (" of unequal size" if mode == "unequal" else " sharing a field name"))
    else:
        res = must(nu.combine_fields, arg)
        exp_fields = [f for t in tabs for f in t]
        for a, s, t in zip(arrs, snaps, tabs):
            require_result(res, a, s, t, exp_fields, what)
    for a, s in zip(arrs, snaps):
        require_unchanged(a, s, what)
    require(len(arg) == len(arrs), "%s consumed its argument list", what)


def classify_combine(case):
    allf = [f for t in case["tables"] for f in t]
    labs = _shape_labels(case) + _dtype_labels(allf) + ["narrays:%d" % len(case["tables"]),
                                                       "mode:" + case["mode"]]
    if case["mode"] != "ok":
        labs.append("rejects:" + case["mode"])
    elif len(case["tables"]) >= 2 and _rich(allf):
        labs.append("nt:several-arrays-rich-dtype")
    return labs


# ------------------------------------------------------------------ copy_fields

@st.composite
def copy_cases(draw):
    f1 = draw(tables())
    n1 = _names(f1)
    common = draw(selections(n1, allow_empty=True))
    extra = draw(st.one_of(st.just([]), sa.field_specs(1, 3, exclude_names=n1)))
    f2 = []
    for n in common:
        spec = list(_by_name(f1)[n])
        if sa.is_multibyte(spec[1]) and draw(st.booleans()):
            spec[2] = sa.SWAPPED if spec[2] == sa.NATIVE else sa.NATIVE
        f2.append(spec)
    f2 = f2 + extra
    if not f2:
        f2 = draw(sa.field_specs(1, 2, exclude_names=n1))
    f2 = draw(st.permutations(f2))
    return {"fields": f1, "fields2": [list(f) for f in f2], "shape": draw(sa.array_shapes),
            "seed": draw(sa.seeds), "seed2": draw(sa.seeds)}


def check_copy(case, ctx):
    import esutil.numpy_util as nu
    f1, f2 = case["fields"], case["fields2"]
    a1 = sa.make_array(f1, case["shape"], case["seed"])
    a2 = sa.make_array(f2, case["shape"], case["seed2"])
    before2 = a2.copy()
    snap1 = snapshot(a1)
    r = must(nu.copy_fields, a1, a2)
    require(r is None, "copy_fields returned %r", type(r))
    require_unchanged(a1, snap1, "copy_fields")
    require(a2.dtype == sa.make_dtype(f2) and a2.shape == before2.shape, "copy_fields changed the target's "
            "dtype or shape")
    have1 = _by_name(f1)
    for spec in f2:
        n = spec[0]
        if n in have1:
            require(sa.native_bytes(a2[n]) == sa.native_bytes(a1[n]),
                    "copy_fields: common field %r of the target does not equal the source", n)
            same_order = spec[2] == have1[n][2]
            if same_order:
                require(field_bytes(a2, f2, n) == field_bytes(a1, f1, n),
                        "copy_fields: bytes of common field %r differ", n)
        else:
            require(field_bytes(a2, f2, n) == field_bytes(before2, f2, n),
                    "copy_fields modified field %r, which the source does not have", n)


def classify_copy(case):
    f1, f2 = case["fields"], case["fields2"]
    common = [f for f in f2 if f[0] in _names(f1)]
    labs = _shape_labels(case) + _dtype_labels(f1) + ["ncommon:%s" % (len(common) if len(common) < 3 else "3+")]
    if any(f[2] != _by_name(f1)[f[0]][2] for f in common):
        labs.append("common-field-other-byteorder")
    if len(common) < len(f2):
        labs.append("target-has-extra-fields")
    if 0 < len(common) < len(f1):
        labs.append("proper-subset")
        if _rich(f1):
            labs.append("nt:proper-common-subset-rich-dtype")
    return labs


# ------------------------------------------------------------------ copy_fields_by_name

@st.composite
def byname_cases(draw):
    fields = draw(tables())
    sel = draw(selections(_names(fields)))
    return {"fields": fields, "shape": draw(sa.array_shapes), "seed": draw(sa.seeds), "sel": sel,
            "modes": [draw(st.sampled_from(DEFAULT_MODES)) for _ in sel],
            "container": _container_for(draw, sel, ["list", "list", "tuple", "array", "scalar"]),
            "bare": draw(st.booleans())}


def check_byname(case, ctx):
    import esutil.numpy_util as nu
    fields, sel, shape = case["fields"], case["sel"], tuple(case["shape"])
    arr = sa.make_array(fields, shape, case["seed"])
    before = arr.copy()
    rng = np.random.Generator(np.random.PCG64(case["seed"] ^ 0xC3C3C3))
    have = _by_name(fields)
    vals, expected = [], {}
    for n, mode in zip(sel, case["modes"]):
        val, exp = _default_value(rng, have[n], mode, shape)
        vals.append(val)
        expected[n] = exp
    names_arg = _wrap(sel, case["container"])
    vals_arg = vals
    if case["container"] == "scalar" and case["bare"] and case["modes"][0] in ("scalar", "npscalar"):
        vals_arg = vals[0]
    r = must(nu.copy_fields_by_name, arr, names_arg, vals_arg)
    require(r is None, "copy_fields_by_name returned %r", type(r))
    require(arr.dtype == before.dtype and arr.shape == before.shape, "copy_fields_by_name changed dtype/shape")
    for spec in fields:
        n = spec[0]
        got = field_bytes(arr, fields, n)
        if n in expected:
            require(got == expected[n].tobytes(), "copy_fields_by_name: field %r does not hold the value "
                    "supplied for it (mode %s)", n, case["modes"][sel.index(n)])
        else:
            require(got == field_bytes(before, fields, n), "copy_fields_by_name modified unnamed field %r", n)


def classify_byname(case):
    fields = case["fields"]
    labs = _shape_labels(case) + _dtype_labels(fields) + _sel_labels(case, fields)
    labs += ["value:" + m for m in sorted(set(case["modes"]))]
    return labs


# ------------------------------------------------------------------ split_fields

@st.composite
def split_cases(draw):
    fields = draw(tables())
    names = _names(fields)
    mode = draw(st.sampled_from(["all", "sel", "sel", "sel", "missing"]))
    sel, container = None, "none"
    if mode != "all":
        sel = draw(selections(names, unknown=(mode == "missing"), duplicates=True))
        container = _container_for(draw, sel, ["list", "list", "tuple", "scalar"])
    return {"fields": fields, "shape": draw(sa.array_shapes), "seed": draw(sa.seeds), "sel": sel,
            "container": container, "getnames": draw(st.booleans()),
            "impl": draw(st.sampled_from(["numpy_util", "numpy_util", "recfile"]))}


def check_split(case, ctx):
    if case["impl"] == "recfile":
        import esutil.recfile.Util as mod
    else:
        import esutil.numpy_util as mod
    fields, sel = case["fields"], case["sel"]
    arr = sa.make_array(fields, case["shape"], case["seed"])
    snap = snapshot(arr)
    have = _by_name(fields)
    kw = {}
    if sel is not None:
        kw["fields"] = _wrap(sel, case["container"])
    if case["getnames"]:
        kw["getnames"] = True
    what = "%s.split_fields(%s)" % (case["impl"], ", ".join("%s=%r" % kv for kv in sorted(kw.items())))
    if sel is not None and any(n not in have for n in sel):
        require_valueerror(sut(mod.split_fields, arr, **kw), what + " naming a missing field")
        return
    out = must(mod.split_fields, arr, **kw)
    want = list(sel) if sel is not None else _names(fields)
    if case["getnames"]:
        require(isinstance(out, tuple) and len(out) == 2, "%s must return (fields, names)", what)
        out, gotnames = out
        require([str(n) for n in gotnames] == want, "%s: names %r, expected %r", what, list(gotnames), want)
    require(isinstance(out, tuple) and len(out) == len(want), "%s returned %d items for %d requested fields",
            what, len(out) if isinstance(out, tuple) else -1, len(want))
    for v, n in zip(out, want):
        spec = have[n]
        require(isinstance(v, np.ndarray) and v.dtype == sa.field_dtype(spec)
                and v.dtype.byteorder == sa.field_dtype(spec).byteorder,
                "%s: item for %r has dtype %s, field is %s", what, n, getattr(v, "dtype", None),
                sa.field_dtype(spec))
        require(v.shape == arr.shape + tuple(spec[3]), "%s: item for %r has shape %r", what, n, v.shape)
        require(np.ascontiguousarray(v).tobytes() == field_bytes(arr, fields, n),
                "%s: item for %r does not equal data[%r]", what, n, n)
        if v.size:
            require(np.shares_memory(v, arr), "%s: item for %r is a copy, not a view of the input", what, n)
    require_unchanged(arr, snap, what)


def classify_split(case):
    fields = case["fields"]
    labs = _shape_labels(case) + _dtype_labels(fields) + ["impl:" + case["impl"],
                                                         "getnames:%s" % case["getnames"]]
    if case["sel"] is None:
        labs.append("fields:none")
    else:
        labs += _sel_labels(case, fields)
        if any(n not in _names(fields) for n in case["sel"]):
            labs.append("rejects:missing")
    return labs


# ------------------------------------------------------------------ compare_arrays

@st.composite
def compare_cases(draw):
    fields = draw(tables())
    names = _names(fields)
    other = draw(st.sampled_from(["copy", "copy", "subset", "subset", "superset"]))
    case = {"fields": fields, "shape": draw(st.one_of(sa.array_shapes, st.sampled_from([[2], [3], [2, 2]]))),
            "seed": draw(sa.seeds), "other": other, "change": None,
            "ignore_missing": draw(st.sampled_from([True, True, False])),
            "swap_order": draw(st.booleans()), "pass_default": draw(st.booleans())}
    if other == "copy":
        case["sel"] = names
    else:
        case["sel"] = draw(selections(names, proper=(other == "subset" and len(names) > 1)))
    case["extra"] = draw(sa.field_specs(1, 2, exclude_names=names)) if other == "superset" else []
    if draw(st.booleans()):
        case["change"] = [draw(st.integers(0, len(case["sel"]) - 1)), draw(sa.seeds)]
    return case


def _different(base, old):
    """A value of the same type that compares unequal to `old` (NaN-free input)."""
    if base == "b1":
        return not bool(old)
    if base in sa.INT_BASES:
        return np.dtype(base).type(int(old) ^ 1)
    if base in sa.FLT_BASES:
        return np.dtype(base).type(1.0) if old == 0 else -old
    if base in sa.CPX_BASES:
        re = 1.0 if old.real == 0 else -old.real
        return np.dtype(base).type(complex(re, old.imag))
    if base.startswith("S"):
        return b"B" if bytes(old)[:1] == b"A" else b"A"
    return u"B" if str(old)[:1] == u"A" else u"A"


def check_compare(case, ctx):
    import esutil.numpy_util as nu
    fields, shape = case["fields"], tuple(case["shape"])
    a = sa.make_array(fields, shape, case["seed"], nan_free=True)
    have = _by_name(fields)
    f2 = []
    for n in case["sel"]:
        spec = list(have[n])
        if case["swap_order"] and sa.is_multibyte(spec[1]):
            spec[2] = sa.SWAPPED if spec[2] == sa.NATIVE else sa.NATIVE
        f2.append(spec)
    f2 = f2 + [list(f) for f in case["extra"]]
    if case["other"] == "copy" and not case["swap_order"]:
        b = a.copy()
    else:
        b = sa.make_array(f2, shape, case["seed"] ^ 0x777, nan_free=True)
        for n in case["sel"]:
            b[n] = a[n]
    changed = False
    if case["change"] is not None and a.size:
        n = case["sel"][case["change"][0]]
        view = b[n]                                  # a view: assignment writes into b
        idx = np.unravel_index(case["change"][1] % view.size, view.shape)
        view[idx] = _different(have[n][1], view[idx])
        changed = True
    snap_a, snap_b = snapshot(a), snapshot(b)
    same_names = set(_names(f2)) == set(_names(fields))
    expect = (not changed) and (case["ignore_missing"] or same_names)
    first, second = (a, b) if case["seed"] % 2 == 0 else (b, a)
    if case["ignore_missing"] and case["pass_default"]:
        got = must(nu.compare_arrays, first, second)
    else:
        got = must(nu.compare_arrays, first, second, ignore_missing=case["ignore_missing"])
    require(isinstance(got, (bool, np.bool_)), "compare_arrays returned %r", got)
    require(bool(got) == expect,
            "compare_arrays(ignore_missing=%s) = %r, expected %r (one element changed: %s, same names: %s)",
            case["ignore_missing"], got, expect, changed, same_names)
    require_unchanged(a, snap_a, "compare_arrays")
    require_unchanged(b, snap_b, "compare_arrays")


def classify_compare(case):
    fields = case["fields"]
    labs = _shape_labels(case) + _dtype_labels(fields) + ["other:" + case["other"],
                                                         "ignore_missing:%s" % case["ignore_missing"]]
    changed = case["change"] is not None and 0 not in case["shape"]
    labs.append("changed:%s" % changed)
    if case["swap_order"]:
        labs.append("other-byteorder")
    if changed and _rich(fields) and case["other"] != "copy":
        labs.append("nt:changed-element-partial-overlap")
    return labs


# ------------------------------------------------------------------ self-test

def selftest():
    fields = [["s", "S3", "|", []], ["a", "i4", ">", [2]], ["u", "U2", "<", []], ["b", "u1", "|", [2, 1]]]
    a = sa.make_array(fields, [2, 3], 99)
    for spec in fields:
        if field_bytes(a, fields, spec[0]) != np.ascontiguousarray(a[spec[0]]).tobytes():
            raise AssertionError("field_bytes disagrees with numpy field access for %r" % (spec,))
    if a.dtype.itemsize != _offsets(fields)[1] or a.dtype.descr != sa.make_dtype(fields).descr:
        raise AssertionError("spec offsets do not describe the packed dtype")


SUBCHECKS = [
    Subcheck("extract", extract_cases, check_extract, classify_extract, quick=3600, thorough=45000,
             journal=False),
    Subcheck("remove", remove_cases, check_remove, classify_remove, quick=2400, thorough=30000,
             journal=False),
    Subcheck("reorder", reorder_cases, check_reorder, classify_reorder, quick=3600, thorough=45000,
             journal=False),
    Subcheck("add", add_cases, check_add, classify_add, quick=3600, thorough=45000, journal=False),
    Subcheck("combine", combine_cases, check_combine, classify_combine, quick=3000, thorough=40000,
             journal=False),
    Subcheck("copy_fields", copy_cases, check_copy, classify_copy, quick=2400, thorough=30000,
             journal=False),
    Subcheck("copy_by_name", byname_cases, check_byname, classify_byname, quick=2400, thorough=30000,
             journal=False),
    Subcheck("split", split_cases, check_split, classify_split, quick=2400, thorough=25000,
             journal=False),
    Subcheck("compare", compare_cases, check_compare, classify_compare, quick=2400, thorough=30000,
             journal=False),
]
