"""C17 -- Gauss-Legendre rules (gauleg) and the integrators built on them.

Oracles (none of them calls esutil):
  * reference rule: Newton iteration on the Legendre recurrence in numpy.longdouble (64-bit
    mantissa), written here; pinned in selftest() against numpy.polynomial.legendre.leggauss
    and, when mpmath is importable, against 40-digit roots of mpmath.legendre.
  * exactness: polynomials given in the Legendre basis of [a,b]; their exact integral is
    c0*(b-a); the polynomial is evaluated at the *returned* nodes in longdouble.
  * integrators: weighted sums over the reference rule, the harness's own piecewise-linear
    interpolation for tabulated data, the explicit double sum for QGauss2.
  * histories: a reused QGauss object must give bit-identical results to a fresh one.
"""
import numpy as np
from hypothesis import strategies as st

from vp.gen import layouts as LY
from vp.api import Raised, Subcheck, must, require, sut

PROPERTY = "C17"
RULE = ("gauleg(a,b,n): n in 1..200 (all of them on [-1,1] enumerated in both tiers; samples up to 2000), "
        "intervals = unit/[0,1]/negative/reversed (a>b) plus width 10^U(-9,9) at centres up to 1e6 with "
        "|b-a| >= 1e-9*max(|a|,|b|) (1e-5 for n>200). exact: n<=30, Legendre-basis polynomials of degree "
        "<=2n-1 (half of them exactly 2n-1) on intervals with max(|a|,|b|) <= 100|b-a|. integrators: "
        "smooth integrand families (exp, sin, lorentzian, gaussian, cubic; plain functions and bound "
        "methods; list/tuple/array ranges), unevenly spaced tables of 2..40 points, QGauss2 with nx!=ny "
        "and nx==ny on non-symmetric f(x,y); histories of 2..6 integrate calls on one QGauss object with "
        "changing/None npts. Non-trivial: n>=2 on a non-unit interval (rule/exact/func/data), nx!=ny or a "
        "non-unit rectangle (gauss2d), a history with >=2 different npts. Distinct = distinct case JSON."
        " Tabulated data: abscissa scales 1e-12..1e12, integer-typed abscissae, strided / record-field / byte-swapped arrays.")
RULE += (" " + 'Also: integrands returning a fresh array, the array they keep (memoising, called twice), or an integer/boolean array; intervals of width exactly 2 and 1 away from the origin; QGauss2: one or two further calls on the same object over other rectangles.')
ASSUMPTIONS = [
    "intervals are finite with |b-a| >= 1e-9*max(|a|,|b|) (1e-5 for n>200): below that float64 cannot "
    "hold n distinct interior nodes, so 'strictly inside/ascending' cannot be meant",
    "polynomial exactness and all integrator sub-checks use max(|a|,|b|) <= 100|b-a|: further out the "
    "float64 representation error of the nodes alone exceeds the stated 1e-9 bound for any implementation",
    "for a>b 'positive weights / ascending' is read as 'sign of b-a / ordered from a to b' (the rule then "
    "integrates from a to b with the usual sign)",
    "integrands passed to integrate() are Python functions or bound methods (the documented dispatch); "
    "tabulated x is a strictly increasing float64 ndarray, y an ndarray",
    "tabulated data keep adjacent spacings within a factor 20 of each other so that the interpolant's "
    "slope does not amplify the 1-ulp node rounding above the tolerance",
]
TECHNIQUE = ("Hypothesis-generated (n, interval, polynomial/integrand/table, call history) cases + full "
             "enumeration of n=1..200 on [-1,1]; judged against a longdouble Newton-Legendre reference rule "
             "(self-tested against numpy leggauss and mpmath), exact Legendre-basis integrals, reference "
             "weighted sums and a fresh-object differential")
LEVEL_TEXT = ("exploration: every n in 1..200 on [-1,1] enumerated; other intervals, larger n, polynomials, "
              "integrands, tables and call histories sampled")

LD = np.longdouble
_RULES = {}
FLOOR = 1e-290      # absolute floor of every tolerance: float64 products below ~1e-308 round absolutely


# --------------------------------------------------------------------------- reference rule
def _legendre_and_derivative(n, z):
    p1 = np.ones_like(z)
    p2 = np.zeros_like(z)
    for j in range(1, n + 1):
        p3 = p2
        p2 = p1
        p1 = ((2 * j - 1) * z * p2 - (j - 1) * p3) / j
    pp = n * (z * p1 - p2) / (z * z - 1)
    return p1, pp


def ref_rule(n):
    """(t, w) on [-1,1], t ascending, numpy.longdouble."""
    if n in _RULES:
        return _RULES[n]
    m = (n + 1) // 2
    i = np.arange(1, m + 1, dtype=LD)
    pi = 4 * np.arctan(LD(1))
    z = np.cos(pi * (i - LD(0.25)) / (LD(n) + LD(0.5)))
    for _ in range(60):
        p1, pp = _legendre_and_derivative(n, z)
        dz = p1 / pp
        z = z - dz
        if np.max(np.abs(dz)) < 4e-19:
            break
    else:
        raise RuntimeError("reference Newton iteration did not converge for n=%d" % n)
    if n % 2 == 1:
        z[m - 1] = 0
    p1, pp = _legendre_and_derivative(n, z)
    w = 2 / ((1 - z * z) * pp * pp)
    if n % 2 == 0:
        t = np.concatenate([-z, z[::-1]])
        ww = np.concatenate([w, w[::-1]])
    else:
        t = np.concatenate([-z, z[:-1][::-1]])
        ww = np.concatenate([w, w[:-1][::-1]])
    if t.size != n or not np.all(np.diff(t) > 0) or not np.all(ww > 0):
        raise RuntimeError("reference rule for n=%d is not a strictly increasing positive rule" % n)
    _RULES[n] = (t, ww)
    return t, ww


def selftest():
    from numpy.polynomial.legendre import leggauss
    for n in list(range(1, 201)) + [501]:
        t, w = ref_rule(n)          # also fills the cache inherited by the forked workers
        if abs(float(w.sum() - 2)) > 1e-17 * max(n, 10):
            raise RuntimeError("reference weights for n=%d sum to 2%+.3g" % (n, float(w.sum() - 2)))
        if n <= 64 or n in (100, 200, 501):
            xl, wl = leggauss(n)
            dx, dw = float(np.max(np.abs(t - xl))), float(np.max(np.abs(w - wl)))
            if dx > 2e-15 or dw > 1e-13:
                raise RuntimeError("reference rule n=%d differs from leggauss: dx=%.3g dw=%.3g" % (n, dx, dw))
    # degree 2n-1 exactness of the reference itself: int_{-1}^{1} t^(2n-2) dt = 2/(2n-1)
    for n in (1, 2, 3, 7, 12):
        t, w = ref_rule(n)
        err = float(abs((w * t ** (2 * n - 2)).sum() - LD(2) / (2 * n - 1)))
        if err > 1e-17:
            raise RuntimeError("reference rule n=%d not exact for t^(2n-2): %.3g" % (n, err))
    try:
        import mpmath
    except ImportError:
        return
    mpmath.mp.dps = 40
    for n in (2, 3, 5, 10, 21):
        t, w = ref_rule(n)
        for k in (0, n // 2, n - 1):
            r = mpmath.findroot(lambda x: mpmath.legendre(n, x), mpmath.mpf(repr(float(t[k]))))
            d1 = mpmath.diff(lambda x: mpmath.legendre(n, x), r)
            wr = 2 / ((1 - r * r) * d1 * d1)
            dt = abs(mpmath.mpf(float(t[k])) + mpmath.mpf(float(t[k] - LD(float(t[k])))) - r)
            dw = abs(mpmath.mpf(float(w[k])) + mpmath.mpf(float(w[k] - LD(float(w[k])))) - wr)
            if dt > 1e-18 or dw > 1e-17:
                raise RuntimeError("reference rule n=%d node %d differs from mpmath: dt=%s dw=%s"
                                   % (n, k, mpmath.nstr(dt, 3), mpmath.nstr(dw, 3)))


def _bucket(ctx, name, err, tol):
    """Decade histogram of err/tol in evidence (how much head-room the tolerance has)."""
    if err <= 0 or tol <= 0:
        ctx.count("%s:0" % name)
        return
    r = err / tol
    if r >= 0.1:
        ctx.count("%s:%s" % (name, "0.1..0.2" if r < 0.2 else "0.2..0.5" if r < 0.5 else ">=0.5"))
        return
    d = int(np.floor(np.log10(r)))
    ctx.count("%s:%s" % (name, "<1e-6" if d < -6 else "1e%d..1e%d" % (d, d + 1)))


def mapped_ref(n, a, b):
    """Reference nodes ordered from a to b and weights (sign of b-a), longdouble."""
    t, w = ref_rule(n)
    a, b = LD(a), LD(b)
    xm, xl = (a + b) / 2, (b - a) / 2
    return xm + xl * t, xl * w


# --------------------------------------------------------------------------- generators
N_SMALL = st.integers(1, 12)


def n_rule(big=True):
    parts = [st.integers(1, 200), st.integers(1, 200), N_SMALL, st.sampled_from([1, 2, 3, 199, 200])]
    if big:
        parts.append(st.sampled_from([201, 256, 333, 500, 777, 1000, 1500, 2000]))
    return st.one_of(*parts)


@st.composite
def intervals(draw, max_logratio=8.6, allow_special=True, extreme=False):
    """(a, b) with |b-a| >= ~2.5e-9*max(|a|,|b|) for the default max_logratio."""
    kind = draw(st.sampled_from(["special", "general", "general", "general"] if allow_special
                                else ["general"]))
    if kind == "special":
        return draw(st.sampled_from([(-1.0, 1.0), (0.0, 1.0), (-1.0, 0.0), (1.0, -1.0), (-3.0, -2.0),
                                     (0.0, 1e-9), (-1e9, 1e9), (2.0, 5.0), (1.0, 0.0), (-0.5, 0.25),
                                     # width exactly 2 (the scale factor of the map from [-1,1] is exactly 1) and
                                     # exactly 1, away from the origin
                                     (0.0, 2.0), (1.0, 3.0), (-3.0, -1.0), (2.0, 0.0), (5.0, 7.0), (3.0, 4.0)]))
    # widths over 18 decades; one interval in five much narrower or wider still ("tiny and huge widths": the rule
    # is scale-free, an absolute threshold on the width has no business in it)
    width = 10.0 ** draw(st.one_of(st.floats(-9, 9), st.floats(-9, 9), st.floats(-9, 9), st.floats(-9, 9),
                                   st.floats(-200, 200) if extreme else st.floats(-9, 9)))
    if draw(st.integers(0, 4)) == 0:
        centre = 0.0
    else:
        centre = min(width * 10.0 ** draw(st.floats(-3, max_logratio)), max(1e6, width))
        if draw(st.booleans()):
            centre = -centre
    a, b = centre - width / 2, centre + width / 2
    if draw(st.integers(0, 3)) == 0:
        a, b = b, a
    return (a, b)


def _interval_labels(a, b, n=None):
    labs = []
    unit = (a, b) == (-1.0, 1.0)
    if unit:
        labs.append("interval:unit")
    if a > b:
        labs.append("interval:reversed")
    if max(a, b) <= 0:
        labs.append("interval:negative")
    w = abs(b - a)
    labs.append("width:%s" % ("<=1e-6" if w <= 1e-6 else ">=1e6" if w >= 1e6 else "mid"))
    r = max(abs(a), abs(b)) / w
    labs.append("offset/width:%s" % ("<=1" if r <= 1 else "<=100" if r <= 100 else "<=1e6" if r <= 1e6 else ">1e6"))
    if n is not None:
        labs.append("n:%s" % ("1" if n == 1 else "2-12" if n <= 12 else "13-200" if n <= 200 else ">200"))
        if n >= 2 and not unit:
            labs.append("nt:n>=2,non-unit-interval")
    return labs


# --------------------------------------------------------------------------- sub-check: rule
@st.composite
def rule_cases(draw):
    n = draw(n_rule())
    a, b = draw(intervals(max_logratio=8.6 if n <= 200 else 4.6, extreme=True))
    # the end points as the caller holds them: Python floats, numpy float32 scalars, Python or small numpy ints
    return {"n": n, "a": a, "b": b, "ab_as": draw(st.sampled_from(["float", "float", "float", "f4", "int", "i2"]))}


def _endpoints(case):
    """(a, b as handed to gauleg, a, b as exact floats, label)"""
    a, b, how = case["a"], case["b"], case.get("ab_as", "float")
    big = max(abs(a), abs(b))
    if how == "f4" and 1e-30 < big < 1e30 and abs(b - a) >= 1e-3 * big:
        fa, fb = np.float32(a), np.float32(b)
        if fa != fb:
            return fa, fb, float(fa), float(fb), "f4"
    if how in ("int", "i2") and big < 3e4 and round(a) != round(b) and abs(round(b) - round(a)) >= 1e-3 * big:
        ia, ib = int(round(a)), int(round(b))
        if how == "i2":
            return np.int16(ia), np.int16(ib), float(ia), float(ib), "i2"
        return ia, ib, float(ia), float(ib), "int"
    return a, b, a, b, "float"


def rule_exhaustive(tier):
    for n in range(1, 201):
        yield {"n": n, "a": -1.0, "b": 1.0}


def check_rule(case, ctx):
    from esutil.integrate import gauleg
    n = case["n"]
    arg_a, arg_b, a, b, _ = _endpoints(case)
    r = must(gauleg, arg_a, arg_b, n)
    require(isinstance(r, tuple) and len(r) == 2, "gauleg must return (x, w), got %r", type(r))
    x, w = r
    require(isinstance(x, np.ndarray) and isinstance(w, np.ndarray) and x.shape == (n,) and w.shape == (n,),
            "gauleg(%r,%r,%d) returned shapes %r %r", a, b, n, getattr(x, "shape", None), getattr(w, "shape", None))
    require(x.dtype == np.float64 and w.dtype == np.float64, "gauleg returned dtypes %r %r", x.dtype, w.dtype)
    require(bool(np.all(np.isfinite(x))) and bool(np.all(np.isfinite(w))),
            "gauleg(%r,%r,%d) returned non-finite values: x=%r w=%r", a, b, n, x[:4].tolist(), w[:4].tolist())
    lo, hi = min(a, b), max(a, b)
    width = abs(LD(b) - LD(a))
    ulp = float(np.spacing(max(abs(a), abs(b))))
    sgn = 1.0 if b > a else -1.0
    require(bool(np.all((x > lo) & (x < hi))), "abscissae not strictly inside (%r,%r): min %r max %r",
            lo, hi, float(x.min()), float(x.max()))
    if n > 1:
        require(bool(np.all(np.diff(x) * sgn > 0)), "abscissae not strictly ordered from a=%r to b=%r (n=%d)", a, b, n)
    xs = x.astype(LD)
    asym = float(np.max(np.abs(xs + xs[::-1] - (LD(a) + LD(b)))))
    require(asym <= 4 * ulp, "abscissae not symmetric about the midpoint: max |x_i+x_(n-1-i)-(a+b)| = %.3g "
            "> 4 ulp = %.3g", asym, 4 * ulp)
    require(bool(np.all(w * sgn > 0)), "weights do not all have the sign of b-a: %r", w[:6].tolist())
    tol_w = 1e-9 * float(width)
    wasym = float(np.max(np.abs(w - w[::-1])))
    require(wasym <= tol_w, "weights not symmetric: max |w_i-w_(n-1-i)| = %.3g", wasym)
    ws = w.astype(LD)
    dsum = float(abs(ws.sum() - (LD(b) - LD(a))))
    require(dsum <= tol_w, "weights sum to (b-a)%+.3g, allowed 1e-9|b-a| = %.3g", dsum, tol_w)
    xr, wr = mapped_ref(n, a, b)
    dx = float(np.max(np.abs(xs - xr)))
    tol_x = 1e-12 * float(width) + 4 * ulp
    require(dx <= tol_x, "abscissae differ from the reference rule by %.3g > %.3g (n=%d)", dx, tol_x, n)
    dw = float(np.max(np.abs(ws - wr)))
    require(dw <= tol_w, "weights differ from the reference rule by %.3g > %.3g (n=%d)", dw, tol_w, n)
    _bucket(ctx, "dx/tol", dx, tol_x)
    _bucket(ctx, "dw/tol", dw, tol_w)
    _bucket(ctx, "asym/4ulp", asym, 4 * ulp)
    # the arrays returned are the caller's: he rescales them in place (x *= f; x += c) and asks for the rule again
    x0, w0 = x.copy(), w.copy()
    x *= 3.0
    x += 1.0
    w[...] = 0.0
    x2, w2 = must(gauleg, arg_a, arg_b, n)
    require(np.array_equal(x2, x0) and np.array_equal(w2, w0), "gauleg(%r,%r,%d) asked again after the caller modified the "
            "arrays it had returned: nodes %r weights %r, the first call gave %r %r", a, b, n, x2[:3].tolist(),
            w2[:3].tolist(), x0[:3].tolist(), w0[:3].tolist())


def classify_rule(case):
    _, _, a, b, how = _endpoints(case)
    return _interval_labels(a, b, case["n"]) + ["endpoints-as:" + how]


# --------------------------------------------------------------------------- sub-check: exact
@st.composite
def exact_cases(draw):
    n = draw(st.one_of(st.integers(1, 30), st.integers(1, 30), st.integers(1, 6)))
    a, b = draw(intervals(max_logratio=1.95))
    deg = 2 * n - 1 if draw(st.booleans()) else draw(st.integers(0, 2 * n - 1))
    mag = 10.0 ** draw(st.integers(-3, 3))
    el = st.one_of(st.floats(-1, 1), st.sampled_from([0.0, 1.0, -1.0]))
    coef = [mag * c for c in draw(st.lists(el, min_size=deg + 1, max_size=deg + 1))]
    if coef[deg] == 0.0:
        coef[deg] = mag
    return {"n": n, "a": a, "b": b, "coef": coef}


def _legendre_series(coef, t):
    """sum_k coef[k] P_k(t), forward recurrence (stable on [-1,1]), longdouble."""
    pkm1 = np.ones_like(t)
    total = LD(coef[0]) * pkm1
    if len(coef) == 1:
        return total
    pk = t.copy()
    total = total + LD(coef[1]) * pk
    for k in range(1, len(coef) - 1):
        pkp1 = ((2 * k + 1) * t * pk - k * pkm1) / (k + 1)
        pkm1, pk = pk, pkp1
        total = total + LD(coef[k + 1]) * pk
    return total


def check_exact(case, ctx):
    from esutil.integrate import gauleg
    n, a, b, coef = case["n"], case["a"], case["b"], case["coef"]
    x, w = must(gauleg, a, b, n)
    la, lb = LD(a), LD(b)
    t = (2 * x.astype(LD) - la - lb) / (lb - la)
    p = _legendre_series(coef, t)
    got = (w.astype(LD) * p).sum()
    exact = LD(coef[0]) * (lb - la)
    err = float(abs(got - exact))
    require(np.isfinite(err), "rule sum is not finite for n=%d on [%r,%r]", n, a, b)
    bound_hi = sum(abs(c) for c in coef)          # >= max|p| on [a,b] since |P_k| <= 1
    tol = 1e-9 * float(abs(lb - la)) * bound_hi + FLOOR
    require(err <= tol, "degree-%d polynomial (n=%d, [%r,%r]) integrated with error %.3g > 1e-9(b-a)sum|c| = %.3g",
            len(coef) - 1, n, a, b, err, tol)
    # max|p| lies between a sampled maximum and sum|c|: count the cases the weaker bound cannot decide
    grid = np.linspace(LD(-1), LD(1), 801)
    m_lo = float(np.max(np.abs(_legendre_series(coef, grid))))
    if err > 1e-9 * float(abs(lb - la)) * m_lo:
        ctx.count("error-between-sampled-max-and-sum|c|-bound")
    _bucket(ctx, "err/tol", err, tol)


def classify_exact(case):
    labs = _interval_labels(case["a"], case["b"], case["n"])
    d = len(case["coef"]) - 1
    labs.append("degree:%s" % ("2n-1" if d == 2 * case["n"] - 1 else "lower"))
    return labs


# --------------------------------------------------------------------------- integrands
FAMILIES = ["exp", "sin", "lorentz", "gauss", "cubic", "const"]


def _family(name, k, ph, c, s):
    """f(x) evaluated with whatever float type x has (float64 for esutil, longdouble for the oracle)."""
    def f(x):
        if name == "const":
            # a constant integrand written the natural way: it returns a number, not an array
            return float(ph) + 0.5 if x.dtype == np.float64 else x.dtype.type(float(ph) + 0.5) + 0 * x
        T = x.dtype.type
        u = (x - T(c)) / T(s)
        if name == "exp":
            return np.exp(T(k) * u / 4)
        if name == "sin":
            return np.sin(T(k) * u + T(ph))
        if name == "lorentz":
            return 1 / (1 + (T(k) * u) ** 2)
        if name == "gauss":
            return np.exp(-(u - T(ph) / 4) ** 2 * T(abs(k) + 0.5) / 2)
        return u ** 3 - T(k) * u * u / 8 + T(ph) * u + T(0.5)
    return f


class _Holder(object):
    def __init__(self, f):
        self._f = f

    def method(self, x):
        return self._f(x)


@st.composite
def integrand(draw, a, b):
    lo, hi = min(a, b), max(a, b)
    return {"name": draw(st.sampled_from(FAMILIES)), "k": draw(st.floats(-12, 12)), "ph": draw(st.floats(-3, 3)),
            "c": (lo + hi) / 2, "s": (hi - lo) / 2 if hi > lo else 1.0}


def _make_f(spec):
    return _family(spec["name"], spec["k"], spec["ph"], spec["c"], spec["s"])


_GRID = np.linspace(LD(0), LD(1), 65)


def _ref_func_integral(n, a, b, f):
    """(reference weighted sum, max|f| over the nodes and a 65-point grid of [a,b]).  The scale
    of the tolerance is the size of f on the interval, not at the nodes alone (a 1-point rule
    may sit on a zero of f)."""
    xr, wr = mapped_ref(n, a, b)
    y = f(xr)
    yg = f(LD(a) + (LD(b) - LD(a)) * _GRID)
    return (wr * y).sum(), max(float(np.max(np.abs(y))), float(np.max(np.abs(yg))))


def _range_arg(a, b, kind):
    if kind == "tuple":
        return (a, b)
    if kind == "array":
        return np.array([a, b])
    return [a, b]


@st.composite
def func_cases(draw):
    n = draw(st.one_of(st.integers(1, 200), N_SMALL))
    a, b = draw(intervals(max_logratio=1.95))
    return {"n": n, "a": a, "b": b, "f": draw(integrand(a, b)),
            "range": draw(st.sampled_from(["list", "tuple", "array"])),
            # what the integrand hands back: a fresh float64 array, an array it keeps (a memoising integrand), or
            # an integer / boolean array (an indicator or counting function)
            "ret": draw(st.sampled_from(["fresh", "fresh", "fresh", "memo", "int-const", "bool-const"])),
            "call": draw(st.sampled_from(["integrate", "integrate_func", "qgauss", "method", "npts-in-call"]))}


def check_func(case, ctx):
    import esutil.integrate as ei
    n, a, b = case["n"], case["a"], case["b"]
    f = _make_f(case["f"])
    ret = case.get("ret", "fresh")
    if ret in ("int-const", "bool-const"):
        m = 1 if ret == "bool-const" else int(round(case["f"]["k"]))

        def f(x):           # noqa: F811 - an indicator / counting function: integer or boolean values
            if x.dtype == np.float64:
                return np.ones(x.shape, dtype=bool) if ret == "bool-const" else np.full(x.shape, m, dtype="i8")
            return x.dtype.type(m) + 0 * x
    g = f
    memo = {}
    if ret == "memo":
        def g(x):           # an integrand that remembers what it computed and hands the same array back
            key = np.asarray(x).tobytes()
            if key not in memo:
                memo[key] = np.asarray(f(x))
            return memo[key]
    rng = _range_arg(a, b, case["range"])
    call = case["call"]

    def run():
        if call == "integrate":
            return must(must(ei.QGauss, n).integrate, rng, g)
        if call == "integrate_func":
            return must(must(ei.QGauss, n).integrate_func, rng, g)
        if call == "qgauss":
            return must(ei.qgauss, rng, g, n)
        if call == "method":
            return must(must(ei.QGauss, n).integrate, rng, _Holder(g).method)
        return must(must(ei.QGauss).integrate, rng, g, npts=n)
    got = run()
    require(np.ndim(got) == 0, "integrate returned a non-scalar %r", type(got))
    if ret == "memo":
        again = run()
        require(float(again) == float(got), "%s with an integrand that returns the array it keeps: the second identical "
                "call gives %r, the first gave %r (the integrand's array was altered)", call, float(again), float(got))
    ref, ymax = _ref_func_integral(n, a, b, f)
    tol = 1e-9 * abs(b - a) * ymax + FLOOR
    err = float(abs(LD(got) - ref))
    require(err <= tol, "%s(%s, n=%d) on [%r,%r] = %r, reference weighted sum %r (diff %.3g > %.3g)",
            call, case["f"]["name"], n, a, b, float(got), float(ref), err, tol)
    _bucket(ctx, "err/tol", err, tol)


def classify_func(case):
    return _interval_labels(case["a"], case["b"], case["n"]) + ["family:" + case["f"]["name"], "call:" + case["call"],
                                                                 "integrand-returns:" + case.get("ret", "fresh")]


# --------------------------------------------------------------------------- sub-check: data
@st.composite
def tables(draw, npt=None):
    npt = npt or draw(st.one_of(st.integers(2, 40), st.integers(2, 5)))
    # abscissa scale: mostly moderate, one table in three tiny or huge ("tiny and huge widths")
    h = 10.0 ** draw(st.one_of(st.floats(-3, 3), st.floats(-3, 3), st.floats(-12, 12)))
    inc = draw(st.lists(st.floats(0.05, 1.0), min_size=npt - 1, max_size=npt - 1))
    x0 = h * draw(st.floats(-100, 100))
    xs = [x0]
    for d in inc:
        xs.append(xs[-1] + h * d)
    ymag = 10.0 ** draw(st.integers(-2, 2))
    if draw(st.booleans()):
        ys = [ymag * v for v in draw(st.lists(st.floats(-1, 1), min_size=npt, max_size=npt))]
    else:
        k = draw(st.floats(0.5, 6))
        ys = [ymag * float(np.sin(k * (v - x0) / (h * npt * 0.5)) + 0.3) for v in xs]
    if draw(st.integers(0, 5)) == 0:
        # integer abscissae (bin numbers, pixel indices): same table, integer-valued x
        x0i = draw(st.integers(-50, 50))
        xs = [float(x0i)]
        for d in inc:
            xs.append(xs[-1] + float(1 + int(d * 4)))
        if not draw(st.booleans()):
            ys = [ymag * v for v in draw(st.lists(st.floats(-1, 1), min_size=npt, max_size=npt))]
    return xs, ys


def ref_interp(xt, yt, u):
    """Piecewise-linear interpolation of the table (xt strictly increasing) at u, longdouble;
    outside the table the end segments are extended (interplin's documented behaviour)."""
    xt, yt, u = np.asarray(xt, dtype=LD), np.asarray(yt, dtype=LD), np.asarray(u, dtype=LD)
    out = np.empty(u.shape, dtype=LD)
    for j, v in enumerate(u):
        i = 0
        while i < xt.size - 2 and v > xt[i + 1]:
            i += 1
        out[j] = yt[i] + (yt[i + 1] - yt[i]) * (v - xt[i]) / (xt[i + 1] - xt[i])
    return out


@st.composite
def data_cases(draw):
    xs, ys = draw(tables())
    return {"n": draw(st.one_of(st.integers(1, 120), N_SMALL)), "x": xs, "y": ys,
            "xint": draw(st.sampled_from([None, "i8", "i4"])), "layout": draw(st.sampled_from(LY.KINDS)),
            "yint": draw(st.sampled_from([None, None, None, "i8", "i2"])),
            "call": draw(st.sampled_from(["integrate", "integrate_data", "qgauss", "npts-in-call"]))}


def _ref_data_integral(n, xs, ys):
    xr, wr = mapped_ref(n, min(xs), max(xs))
    return (wr * ref_interp(xs, ys, xr)).sum()


def check_data(case, ctx):
    import esutil.integrate as ei
    n = case["n"]
    xs, ys = np.array(case["x"], dtype="f8"), np.array(case["y"], dtype="f8")
    if case.get("xint") and np.all(xs == np.round(xs)):
        xs = xs.astype(case["xint"])          # an integer-typed abscissa column (np.arange and the like)
    if case.get("yint"):
        # integer-typed ordinates (counts, histograms): the values are rounded first, the reference uses them
        ys = np.round(ys * (100.0 / max(1e-300, float(np.max(np.abs(ys)))))).astype(case["yint"])
    lay = case.get("layout", "contig")
    xs, ys = LY.relayout(xs, lay), LY.relayout(ys, lay)
    x0, y0 = xs.copy(), ys.copy()
    call = case["call"]
    if call == "integrate":
        got = must(must(ei.QGauss, n).integrate, xs, ys)
    elif call == "integrate_data":
        got = must(must(ei.QGauss, n).integrate_data, xs, ys)
    elif call == "qgauss":
        got = must(ei.qgauss, xs, ys, n)
    else:
        got = must(must(ei.QGauss).integrate, xs, ys, npts=n)
    require(np.ndim(got) == 0, "integrate returned a non-scalar %r", type(got))
    require(np.array_equal(xs, x0) and np.array_equal(ys, y0), "integrate_data modified its inputs")
    ref = _ref_data_integral(n, case["x"], [float(v) for v in y0.tolist()])
    tol = 1e-9 * float(xs[-1] - xs[0]) * float(np.max(np.abs(ys))) + FLOOR
    err = float(abs(LD(got) - ref))
    require(err <= tol, "%s over a %d-point table with n=%d = %r, reference %r (diff %.3g > %.3g)",
            call, xs.size, n, float(got), float(ref), err, tol)
    _bucket(ctx, "err/tol", err, tol)


def classify_data(case):
    n, npt = case["n"], len(case["x"])
    d = np.diff(np.array(case["x"]))
    labs = ["n:%s" % ("1" if n == 1 else "2-12" if n <= 12 else "13+"), "table:%s" % ("2" if npt == 2 else "3-5" if npt <= 5 else "6+"),
            "call:" + case["call"]]
    if npt >= 3 and float(d.max()) > 1.5 * float(d.min()):
        labs.append("uneven-spacing")
        if n >= 2:
            labs.append("nt:n>=2,uneven-table")
    return labs


# --------------------------------------------------------------------------- sub-check: history
@st.composite
def history_cases(draw):
    n0 = draw(st.one_of(st.none(), st.integers(1, 40)))
    nops = draw(st.integers(2, 8))
    pool = draw(st.lists(st.integers(1, 60), min_size=1, max_size=3, unique=True))
    # half of the histories alternate between two or three point counts only (A, B, A, B ...): an object that
    # remembers more than its current rule is exercised by coming *back* to a count it has seen
    alternating = draw(st.booleans()) and len(pool) >= 2
    tabsize = draw(st.sampled_from([None, None, 5, 12]))       # tables of one length within a history (buffers reused)
    ops = []
    for _ in range(nops):
        if alternating:
            npts = draw(st.sampled_from(pool))
        else:
            npts = draw(st.one_of(st.none(), st.sampled_from(pool), st.integers(1, 60)))
        if draw(st.booleans()):
            a, b = draw(intervals(max_logratio=1.95))
            ops.append({"kind": "func", "npts": npts, "a": a, "b": b, "f": draw(integrand(a, b))})
        else:
            xs, ys = draw(tables(npt=tabsize))
            ops.append({"kind": "data", "npts": npts, "x": xs, "y": ys})
    return {"n0": n0, "ops": ops}


def check_history(case, ctx):
    import esutil.integrate as ei
    qg = must(ei.QGauss, case["n0"]) if case["n0"] is not None else must(ei.QGauss)
    cur = case["n0"]
    bufx = bufy = None
    for step, op in enumerate(case["ops"]):
        if op["kind"] == "func":
            args = ([op["a"], op["b"]], _make_f(op["f"]))
        else:
            nx = np.array(op["x"], dtype="f8")
            ny = np.array(op["y"], dtype="f8")
            if bufx is not None and bufx.size == nx.size:
                # the caller refills the arrays of the previous table (preallocated buffers): same objects,
                # new contents
                bufx[...] = nx
                bufy[...] = ny
            else:
                bufx, bufy = nx, ny
            args = (bufx, bufy)
        kw = {} if op["npts"] is None else {"npts": op["npts"]}
        if op["npts"] is None and cur is None:
            r = sut(qg.integrate, *args, **kw)
            require(isinstance(r, Raised) and isinstance(r.exc, ValueError),
                    "step %d: integrate without any npts must raise ValueError, got %r", step, r)
            ctx.count("rejected-no-npts")
            continue
        if op["npts"] is not None:
            cur = op["npts"]
        got = must(qg.integrate, *args, **kw)
        fresh = must(must(ei.QGauss, cur).integrate, *args)
        require(np.float64(got).tobytes() == np.float64(fresh).tobytes(),
                "step %d (npts=%r, effective %d): reused object gives %r, fresh QGauss(%d) gives %r",
                step, op["npts"], cur, float(got), cur, float(fresh))
        if op["kind"] == "func":
            ref, ymax = _ref_func_integral(cur, op["a"], op["b"], args[1])
            tol = 1e-9 * abs(op["b"] - op["a"]) * ymax + FLOOR
        else:
            ref = _ref_data_integral(cur, op["x"], op["y"])
            tol = 1e-9 * (op["x"][-1] - op["x"][0]) * max(abs(v) for v in op["y"]) + FLOOR
        err = float(abs(LD(got) - ref))
        require(err <= tol, "step %d (effective npts %d): result %r differs from the reference %r by %.3g > %.3g",
                step, cur, float(got), float(ref), err, tol)


def classify_history(case):
    cur, used = case["n0"], []
    for op in case["ops"]:
        if op["npts"] is not None:
            cur = op["npts"]
        if cur is not None:
            used.append(cur)
    labs = ["start:%s" % ("none" if case["n0"] is None else "npts")]
    if any(y < x for x, y in zip(used, used[1:])):
        labs.append("npts-decreases")
    if any(y > x for x, y in zip(used, used[1:])):
        labs.append("npts-increases")
    if any(op["npts"] is None for op in case["ops"][1:]):
        labs.append("npts-omitted-later")
    if len(set(used)) >= 2:
        labs.append("nt:>=2-different-npts")
    return labs


# --------------------------------------------------------------------------- sub-check: gauss2d
FAMILIES2 = ["expxy", "sincos", "lorentz2", "poly2"]


def _family2(name, k, q, cx, sx, cy, sy):
    def f(x, y):
        T = x.dtype.type
        u, v = (x - T(cx)) / T(sx), (y - T(cy)) / T(sy)
        if name == "expxy":
            return np.exp((T(k) * u + T(q) * v) / 4)
        if name == "sincos":
            return np.sin(T(k) * u + T(0.3)) * np.cos(T(q) * v) + u
        if name == "lorentz2":
            return 1 / (1 + (T(k) * u) ** 2 + 2 * (T(q) * v - T(0.5)) ** 2)
        return u ** 3 * v - T(k) * u * v * v + T(q) * u + v * v + T(0.25)
    return f


@st.composite
def gauss2d_cases(draw):
    nx = draw(st.one_of(st.integers(1, 40), N_SMALL))
    ny = nx if draw(st.integers(0, 3)) == 0 else draw(st.one_of(st.integers(1, 40), N_SMALL))
    ax, bx = draw(intervals(max_logratio=1.95))
    ay, by = draw(intervals(max_logratio=1.95))
    case = {"nx": nx, "ny": ny, "xr": [ax, bx], "yr": [ay, by],
            "f": {"name": draw(st.sampled_from(FAMILIES2)), "k": draw(st.floats(-8, 8)), "q": draw(st.floats(-8, 8))},
            "range": draw(st.sampled_from(["list", "tuple", "array"]))}
    if draw(st.booleans()):
        # further calls on the same QGauss2 object, over other rectangles (or the same one again)
        more = []
        for _ in range(draw(st.integers(1, 2))):
            if draw(st.integers(0, 3)) == 0:
                more.append([[ax, bx], [ay, by]])
            else:
                more.append([list(draw(intervals(max_logratio=1.95))), list(draw(intervals(max_logratio=1.95)))])
        case["more"] = more
    return case


def check_gauss2d(case, ctx):
    import esutil.integrate as ei
    nx, ny = case["nx"], case["ny"]
    (ax, bx), (ay, by) = case["xr"], case["yr"]
    sp = case["f"]
    sx, sy = abs(bx - ax) / 2, abs(by - ay) / 2
    f = _family2(sp["name"], sp["k"], sp["q"], (ax + bx) / 2, sx, (ay + by) / 2, sy)
    qg = must(ei.QGauss2, nx, ny)
    shapes = []

    def spy(x, y):
        shapes.append((np.shape(x), np.shape(y)))
        return f(x, y)
    rects = [[[ax, bx], [ay, by]]] + [r for r in case.get("more", [])]
    for k, ((ax, bx), (ay, by)) in enumerate(rects):
        del shapes[:]
        # the integrand of each call lives on that call's rectangle (same family and parameters, rescaled)
        f = _family2(sp["name"], sp["k"], sp["q"], (ax + bx) / 2, abs(bx - ax) / 2, (ay + by) / 2, abs(by - ay) / 2)
        got = must(qg.integrate_func, _range_arg(ax, bx, case["range"]), _range_arg(ay, by, case["range"]), spy)
        what = "QGauss2(%d,%d).integrate_func(%s) over [%r,%r]x[%r,%r]%s" % (
            nx, ny, sp["name"], ax, bx, ay, by, "" if k == 0 else " (call %d on the same object)" % (k + 1))
        require(np.ndim(got) == 0, "%s returned a non-scalar %r", what, type(got))
        require(len(shapes) == 1 and shapes[0][0] == shapes[0][1] and int(np.prod(shapes[0][0])) == nx * ny,
                "%s: the integrand was called with grids of shapes %r", what, shapes)
        xr, wx = mapped_ref(nx, ax, bx)
        yr, wy = mapped_ref(ny, ay, by)
        z = f(xr[np.newaxis, :] + 0 * yr[:, np.newaxis], yr[:, np.newaxis] + 0 * xr[np.newaxis, :])
        ref = (z * wx[np.newaxis, :] * wy[:, np.newaxis]).sum()
        gx, gy = LD(ax) + (LD(bx) - LD(ax)) * _GRID[::4], LD(ay) + (LD(by) - LD(ay)) * _GRID[::4]
        zg = f(gx[np.newaxis, :] + 0 * gy[:, np.newaxis], gy[:, np.newaxis] + 0 * gx[np.newaxis, :])
        tol = 1e-9 * abs(bx - ax) * abs(by - ay) * max(float(np.max(np.abs(z))), float(np.max(np.abs(zg)))) + FLOOR
        err = float(abs(LD(got) - ref))
        require(err <= tol, "%s = %r, tensor-product reference %r (diff %.3g > %.3g)", what, float(got), float(ref),
                err, tol)
        _bucket(ctx, "err/tol", err, tol)


def classify_gauss2d(case):
    nx, ny = case["nx"], case["ny"]
    labs = ["shape:%s" % ("nx==ny" if nx == ny else "nx<ny" if nx < ny else "nx>ny"), "family:" + case["f"]["name"]]
    unit = case["xr"] == [-1.0, 1.0] and case["yr"] == [-1.0, 1.0]
    if case["xr"][0] > case["xr"][1] or case["yr"][0] > case["yr"][1]:
        labs.append("reversed-range")
    if 1 in (nx, ny):
        labs.append("one-point-axis")
    if case.get("more"):
        labs.append("further-calls-on-same-object:%d" % len(case["more"]))
    if any(abs(abs(r[1] - r[0]) - 2.0) == 0 and r[0] + r[1] != 0 for r in (case["xr"], case["yr"])):
        labs.append("width-exactly-2-off-centre")
    if nx != ny or not unit:
        labs.append("nt:nx!=ny-or-non-unit")
    return labs


SANITIZE = True        # thorough tier: reduced pass against an ASan build of the extensions
SANITIZE_SCALE = 0.03

SUBCHECKS = [
    Subcheck("rule", rule_cases, check_rule, classify_rule, quick=4000, thorough=60000,
             exhaustive=rule_exhaustive, exhaustive_tiers=("quick", "thorough")),
    Subcheck("exact", exact_cases, check_exact, classify_exact, quick=3000, thorough=40000),
    Subcheck("func", func_cases, check_func, classify_func, quick=3000, thorough=25000),
    Subcheck("data", data_cases, check_data, classify_data, quick=2400, thorough=20000),
    Subcheck("history", history_cases, check_history, classify_history, quick=1200, thorough=10000),
    Subcheck("gauss2d", gauss2d_cases, check_gauss2d, classify_gauss2d, quick=1600, thorough=15000),
]
