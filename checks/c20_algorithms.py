"""C20 -- in-place sorts, isplit, splitarray, progress wrappers (pbar/PBar/prange) and pmap.

Oracles (none calls esutil): sortedness + bit-level multiset equality; the chunking laws of the
statement; ``list(iterable)`` and a counting source for laziness; ``[g(v) for v in items]`` for
the parallel map, with per-item sleep latencies that make completion order differ from
submission order.
"""
import io
import time
from collections import Counter

import numpy as np
from hypothesis import strategies as st

from vp.api import Raised, Subcheck, must, require, sut

PROPERTY = "C20"
RULE = ("sort/sort_kv: lists, f8 and i8 arrays and numpy.memmap files of length 0..400 (explicit draws up to 30, seed-expanded "
        "patterns random/few-distinct/sorted/reversed/all-equal/organ-pipe above), key arrays with ties and "
        "identifiable values. isplit: every (num 0..200, nchunks 1..60) enumerated in both tiers, plus "
        "drawn num up to 2**62, nchunks up to 3000, num as python/numpy integer. splitarray: nper 1..50 x "
        "len 0..300 over i8/f8/S arrays, lists and scalars. progress: pbar/PBar/prange over list, range, "
        "tuple, generator, counting iterator with and without len, empty x desc x total(None/exact/too "
        "small incl. 0/too large) x leave x simple x mininterval{0,0.5} x miniters x n_bars, output to a "
        "StringIO, consumed completely or only k items. pmap: nproc 1..8, chunksize 1..len+1, list/tuple/"
        "generator items, per-item sleep 0..20 ms (decreasing, random, first-slow). Non-trivial: sort input "
        "with ties and length>=3; isplit with a remainder; a length-less iterable; pmap with >=2 workers and "
        "strictly decreasing latencies. Distinct = distinct case JSON."
        " Also: random sort inputs of 513..5000 elements; a second pmap call after module state read by the task changed.")
ASSUMPTIONS = [
    "sort inputs are finite numbers (no NaN: the statement speaks of a non-decreasing result) of length <= 400 "
    "(the recursive quicksort inherits Python's recursion limit by design)",
    "keys and values of quicksort_keyvalue have equal length",
    "the harness does not own the OS scheduler: completion order is perturbed through generated latencies, "
    "worker counts and chunk sizes, interleavings inside concurrent.futures are not enumerated",
    "task functions are module-level (picklable), deterministic and do not raise",
    "nothing is demanded of the text written by the progress wrappers except that it goes to file=",
]
TECHNIQUE = ("Hypothesis-generated inputs / option grids / pmap configurations with sleep latencies + full "
             "enumeration of isplit for num<=200 x nchunks<=60; judged by permutation/order predicates, the "
             "chunking laws, list(iterable) with a counting source, and a sequential map")
LEVEL_TEXT = ("exploration: isplit enumerated for 0..200 x 1..60; everything else sampled; process schedules "
              "perturbed by generated latencies, not enumerated")


# --------------------------------------------------------------------------- sort inputs
PATTERNS = ["random", "few-distinct", "sorted", "reversed", "all-equal", "organ-pipe", "sorted-with-ties"]


def _expand(spec):
    """Deterministic expansion of a (seed, n, pattern, kind) description into a list of values."""
    rng = np.random.Generator(np.random.PCG64(spec["seed"]))
    n, pat, kind = spec["n"], spec["pattern"], spec["kind"]
    if kind == "f8":
        base = rng.normal(size=n) * 10.0 ** rng.integers(-3, 6)
        pool = rng.normal(size=4)
    else:
        base = rng.integers(-2 ** 40, 2 ** 40, size=n)
        pool = rng.integers(-3, 3, size=4)
    if pat == "random":
        v = base
    elif pat == "few-distinct":
        v = pool[rng.integers(0, 4, size=n)]
    elif pat == "sorted":
        v = np.sort(base)
    elif pat == "reversed":
        v = np.sort(base)[::-1]
    elif pat == "all-equal":
        v = np.repeat(pool[:1], n)
    elif pat == "organ-pipe":
        s = np.sort(base)
        v = np.concatenate([s[::2], s[1::2][::-1]])
    else:
        v = np.sort(pool[rng.integers(0, 4, size=n)])
    return [float(x) for x in v] if kind == "f8" else [int(x) for x in v]


def _num_el(kind):
    if kind == "f8":
        return st.one_of(st.floats(allow_nan=False, allow_infinity=False), st.integers(-3, 3).map(float),
                         st.sampled_from([0.0, -0.0, 1.5, -1.5, float("inf"), float("-inf")]))
    return st.one_of(st.integers(-3, 3), st.integers(-2 ** 63, 2 ** 63 - 1))


@st.composite
def sort_inputs(draw):
    kind = draw(st.sampled_from(["f8", "i8"]))
    container = draw(st.sampled_from(["list", "list", "array", "array", "memmap"]))
    adtype = None
    if kind == "i8" and container != "list":
        # integer arrays come in other widths and signs too (values drawn inside the type's range)
        adtype = draw(st.sampled_from([None, None, "u1", "i2", "u4", "u8", "i1"]))
    if draw(st.integers(0, 2)) < 2:
        if adtype:
            ii = np.iinfo(adtype)
            el = st.one_of(st.integers(int(ii.min), int(ii.max)), st.sampled_from([int(ii.min), int(ii.max), 0, 1]),
                           st.integers(0, 3))
        else:
            el = _num_el(kind)
        vals = draw(st.lists(el, min_size=0, max_size=draw(st.sampled_from([0, 1, 2, 3, 5, 12, 30]))))
        # JSON cannot carry inf: encode floats as hex strings
        data = [v.hex() for v in vals] if kind == "f8" else vals
        return {"kind": kind, "container": container, "data": data, "adtype": adtype}
    pat = draw(st.sampled_from(PATTERNS))
    if pat == "random" and draw(st.integers(0, 3)) == 0:
        # long random inputs (recursion depth ~ log n there): sizes beyond a few typical cut-over points
        return {"kind": kind, "container": container,
                "gen": {"seed": draw(st.integers(0, 2 ** 32)), "n": draw(st.sampled_from([513, 1001, 1025, 2049, 5000])),
                        "pattern": pat, "kind": kind}, "adtype": adtype}
    nmax = 400 if pat in ("random", "few-distinct", "organ-pipe") else draw(st.sampled_from([60, 150, 400]))
    return {"kind": kind, "container": container, "adtype": adtype,
            "gen": {"seed": draw(st.integers(0, 2 ** 32)), "n": draw(st.integers(31, nmax)), "pattern": pat,
                    "kind": kind}}


def _values(case):
    if "gen" in case:
        v = _expand(case["gen"])
        if case.get("adtype"):
            ii = np.iinfo(case["adtype"])
            span = int(ii.max) - int(ii.min) + 1
            v = [int(x) % span + int(ii.min) for x in v]        # order-scrambling fold into the type's range
            if case["gen"]["pattern"] in ("sorted", "sorted-with-ties"):
                v = sorted(v)
            elif case["gen"]["pattern"] == "reversed":
                v = sorted(v, reverse=True)
        return v
    if case["kind"] == "f8":
        return [float.fromhex(h) for h in case["data"]]
    return list(case["data"])


def _container(case, vals, ctx=None):
    if case["container"] == "memmap" and len(vals) and ctx is not None:
        # the use the module documents: sorting a memory-mapped array in place
        mm = np.memmap(ctx.tmpfile("keys.dat"), dtype=case.get("adtype") or case["kind"], mode="w+", shape=(len(vals),))
        mm[:] = np.array(vals, dtype=case.get("adtype") or case["kind"])
        return mm
    if case["container"] in ("array", "memmap"):
        a = np.array(vals, dtype=case.get("adtype") or case["kind"])
        lay = case.get("layout", "contig")
        if lay == "strided":
            base = np.zeros(2 * a.size + 1, dtype=a.dtype)
            v = base[1::2]
            v[...] = a
            return v
        if lay == "column":
            base = np.zeros((a.size, 3), dtype=a.dtype)
            base[:, 1] = a
            return base[:, 1]
        if lay == "field":
            rec = np.zeros(a.size, dtype=[("p", "u1"), ("v", a.dtype), ("q", "i2")])
            rec["v"] = a
            return rec["v"]
        return a
    return list(vals)


def _bits(kind, v):
    return float(v).hex() if kind == "f8" else int(v)


def check_sort(case, ctx):
    from esutil.algorithm import quicksort
    vals = _values(case)
    data = _container(case, vals, ctx)
    if len(vals) % 3 == 0:
        # an earlier sort in the same process that failed part-way (records that cannot be ordered turn up deep in
        # the data): the sort judged below must not inherit anything from it
        keys = np.random.Generator(np.random.PCG64(len(vals))).permutation(400)[:200].tolist()
        junk = [(int(k), i) for i, k in enumerate(keys)]
        junk[57] = (junk[140][0], None)      # two records with equal key whose labels cannot be compared
        fr = sut(quicksort, junk)
        if not isinstance(fr, Raised):
            ctx.count("unorderable-list-sorted-without-error")
    r = must(quicksort, data)
    require(r is None, "quicksort is in-place and must return None, got %r", type(r))
    out = data.tolist() if isinstance(data, np.ndarray) else data
    require(len(out) == len(vals), "length changed from %d to %d", len(vals), len(out))
    if isinstance(data, np.ndarray):
        require(data.dtype == np.dtype(case.get("adtype") or case["kind"]), "dtype changed to %r", data.dtype)
    bad = [i for i in range(len(out) - 1) if out[i] > out[i + 1]]
    require(not bad, "not non-decreasing at position %d: %r > %r (n=%d)", bad[0] if bad else -1,
            out[bad[0]] if bad else None, out[bad[0] + 1] if bad else None, len(out))
    k = case["kind"]
    require(Counter(_bits(k, v) for v in out) == Counter(_bits(k, v) for v in vals),
            "result is not a permutation of the input (n=%d): input %r -> %r", len(vals), vals[:12], out[:12])


def classify_sort(case):
    vals = _values(case)
    n = len(vals)
    labs = ["kind:" + case["kind"], "container:" + case["container"], "layout:" + case.get("layout", "contig"),
            "n:%s" % ("0" if n == 0 else "1" if n == 1 else "2" if n == 2 else "3-30" if n <= 30 else "31-150" if n <= 150 else "151-400" if n <= 400 else ">400")]
    if "gen" in case:
        labs.append("pattern:" + case["gen"]["pattern"])
    ties = len(set(vals)) < n
    if ties:
        labs.append("ties")
    if n >= 2 and all(a <= b for a, b in zip(vals, vals[1:])):
        labs.append("already-sorted")
    if n >= 2 and all(a >= b for a, b in zip(vals, vals[1:])):
        labs.append("already-reversed")
    if ties and n >= 3:
        labs.append("nt:ties,n>=3")
    return labs


# --------------------------------------------------------------------------- key/value sort
@st.composite
def sort_inputs_l(draw):
    case = draw(sort_inputs())
    # in-place sorts work on whatever array they are handed: views with strides, table columns, record fields
    case["layout"] = draw(st.sampled_from(["contig", "contig", "strided", "column", "field"]))
    return case


@st.composite
def kv_inputs(draw):
    case = draw(sort_inputs_l())
    case["vcontainer"] = draw(st.sampled_from(["list", "array", "strlist", "dictlist"]))
    case["vmode"] = draw(st.sampled_from(["position", "position", "tied"]))
    return case


def check_sort_kv(case, ctx):
    from esutil.algorithm import quicksort_keyvalue
    kvals = _values(case)
    n = len(kvals)
    if case["vmode"] == "position":
        vvals = list(range(n))
    else:
        vvals = [i % 3 for i in range(n)]
    keys = _container(case, kvals, ctx)
    if case["vcontainer"] == "array":
        values = np.array(vvals, dtype="i8")
    elif case["vcontainer"] == "strlist":
        values = ["v%d" % v for v in vvals]
        vvals = list(values)
    elif case["vcontainer"] == "dictlist":
        # payloads that cannot be compared with one another (records): only the keys are ordered
        values = [{"row": v} for v in vvals]
        vvals = ["{'row': %d}" % v for v in vvals]
    else:
        values = list(vvals)
    r = must(quicksort_keyvalue, keys, values)
    require(r is None, "quicksort_keyvalue is in-place and must return None, got %r", type(r))
    kout = keys.tolist() if isinstance(keys, np.ndarray) else keys
    vout = values.tolist() if isinstance(values, np.ndarray) else values
    if case["vcontainer"] == "dictlist":
        vout = [repr(v) for v in vout]
    require(len(kout) == n and len(vout) == n, "lengths changed: %d keys, %d values (was %d)", len(kout), len(vout), n)
    bad = [i for i in range(n - 1) if kout[i] > kout[i + 1]]
    require(not bad, "keys not non-decreasing at position %d (n=%d)", bad[0] if bad else -1, n)
    k = case["kind"]
    before = Counter((_bits(k, a), b) for a, b in zip(kvals, vvals))
    after = Counter((_bits(k, a), b) for a, b in zip(kout, vout))
    require(before == after, "key/value pairs were not kept together (n=%d): first differing pairs %r",
            n, sorted((after - before).items(), key=repr)[:4])


def classify_sort_kv(case):
    return classify_sort(case) + ["values:" + case["vcontainer"], "vmode:" + case["vmode"]]


# --------------------------------------------------------------------------- isplit
def isplit_exhaustive(tier):
    for num in range(0, 201):
        for nchunks in range(1, 61):
            yield {"num": num, "nchunks": nchunks, "numtype": "int", "nctype": "int"}


@st.composite
def isplit_cases(draw):
    num = draw(st.one_of(st.integers(0, 300), st.integers(0, 10 ** 6), st.integers(0, 2 ** 62)))
    nchunks = draw(st.one_of(st.integers(1, 70), st.integers(1, 3000),
                             st.sampled_from([1, 2]).map(lambda k: max(1, min(3000, num + k - 1)))))
    return {"num": num, "nchunks": nchunks, "numtype": draw(st.sampled_from(["int", "int", "i8", "intp"])),
            "nctype": draw(st.sampled_from(["int", "int", "i8", "float"]))}


def _typed(v, t):
    if t == "i8":
        return np.int64(v)
    if t == "intp":
        return np.intp(v)
    if t == "float":
        return float(v)
    return v


def check_isplit(case, ctx):
    from esutil.algorithm import isplit
    num, nchunks = case["num"], case["nchunks"]
    if not case.get("_again"):
        # an earlier call whose result the caller shifted in place (ranges relative to a file offset) must not
        # show through in the call that is judged
        prev = must(isplit, _typed(num, case["numtype"]), _typed(nchunks, case["nctype"]))
        if isinstance(prev, np.ndarray) and prev.dtype.names and prev.flags.writeable:
            prev["start"] += 1000
            prev["end"] += 1000
    subs = must(isplit, _typed(num, case["numtype"]), _typed(nchunks, case["nctype"]))
    require(isinstance(subs, np.ndarray) and subs.dtype.names is not None and
            "start" in subs.dtype.names and "end" in subs.dtype.names,
            "isplit must return an array with fields start and end, got %r", getattr(subs, "dtype", type(subs)))
    require(subs.shape == (nchunks,), "isplit(%d, %d) returned %r ranges", num, nchunks, subs.shape)
    start = [int(v) for v in subs["start"]]
    end = [int(v) for v in subs["end"]]
    require(start[0] == 0, "first range starts at %d, not 0", start[0])
    require(end[-1] == num, "last range ends at %d, not num=%d", end[-1], num)
    for i in range(nchunks - 1):
        require(end[i] == start[i + 1], "ranges not contiguous: end[%d]=%d start[%d]=%d", i, end[i], i + 1, start[i + 1])
    sizes = [e - s for s, e in zip(start, end)]
    require(min(sizes) >= 0, "negative chunk size in %r", sizes[:10])
    require(max(sizes) - min(sizes) <= 1, "chunk sizes differ by more than one: min %d max %d", min(sizes), max(sizes))
    require(all(a >= b for a, b in zip(sizes, sizes[1:])), "larger chunks do not come first: %r", sizes[:20])


def classify_isplit(case):
    num, nc = case["num"], case["nchunks"]
    labs = ["numtype:" + case["numtype"], "nctype:" + case["nctype"]]
    if num % nc:
        labs.append("nt:remainder")
    if nc > num:
        labs.append("more-chunks-than-items")
    if num >= 2 ** 31:
        labs.append("num>=2**31")
    return labs


# --------------------------------------------------------------------------- splitarray
@st.composite
def splitarray_cases(draw):
    nper = draw(st.integers(1, 50))
    n = draw(st.one_of(st.integers(0, 300), st.integers(0, 6).map(lambda k: k * nper),
                       st.integers(0, 6).map(lambda k: max(0, k * nper - 1)), st.integers(0, 6).map(lambda k: k * nper + 1)))
    n = min(n, 300)
    return {"nper": nper, "n": n, "seed": draw(st.integers(0, 2 ** 32)),
            "kind": draw(st.sampled_from(["i8", "f8", "S", "list", "scalar"])),
            "npertype": draw(st.sampled_from(["int", "int", "i8"]))}


def check_splitarray(case, ctx):
    from esutil.numpy_util import splitarray
    nper, n, kind = case["nper"], case["n"], case["kind"]
    rng = np.random.Generator(np.random.PCG64(case["seed"]))
    if kind == "scalar":
        n = 1
    vals = rng.integers(-1000, 1000, size=n)
    if kind == "f8":
        arr = vals / 7.0
    elif kind == "S":
        arr = np.array(["s%d" % v for v in vals], dtype="S6")
    elif kind == "list":
        arr = vals.tolist()
    elif kind == "scalar":
        arr = int(vals[0])
    else:
        arr = vals.astype("i8")
    ref = np.atleast_1d(np.array(arr))
    chunks = must(splitarray, _typed(nper, case["npertype"]), arr)
    require(isinstance(chunks, list), "splitarray must return a list, got %r", type(chunks))
    if n == 0:
        require(len(chunks) == 0, "empty input must give no chunks, got %d", len(chunks))
        return
    require(len(chunks) == -(-n // nper), "expected %d chunks for n=%d nper=%d, got %d", -(-n // nper), n, nper, len(chunks))
    for i, c in enumerate(chunks):
        require(isinstance(c, np.ndarray) and c.ndim == 1, "chunk %d is not a 1-d array", i)
        if i < len(chunks) - 1:
            require(c.size == nper, "chunk %d has %d elements, nper=%d", i, c.size, nper)
        else:
            require(1 <= c.size <= nper, "last chunk has %d elements, nper=%d", c.size, nper)
    cat = np.concatenate(chunks)
    require(cat.dtype == ref.dtype and cat.shape == ref.shape and cat.tobytes() == ref.tobytes(),
            "concatenated chunks differ from the input (n=%d nper=%d)", n, nper)


def classify_splitarray(case):
    n, nper = (1 if case["kind"] == "scalar" else case["n"]), case["nper"]
    labs = ["kind:" + case["kind"]]
    labs.append("empty" if n == 0 else "exact-multiple" if n % nper == 0 else "nt:short-last-chunk")
    if n and n < nper:
        labs.append("single-short-chunk")
    return labs


# --------------------------------------------------------------------------- progress wrappers
class CountingIter(object):
    """Length-less iterator that records how far it has been advanced."""

    def __init__(self, items):
        self._items = list(items)
        self.taken = 0
        self.stops = 0

    def __iter__(self):
        return self

    def __next__(self):
        if self.taken >= len(self._items):
            self.stops += 1
            raise StopIteration
        v = self._items[self.taken]
        self.taken += 1
        return v


class SizedCountingIter(CountingIter):
    def __len__(self):
        return len(self._items)


SOURCES = ["list", "range", "tuple", "generator", "counting", "sized-counting"]


def _make_source(kind, items):
    """(iterable handed to esutil, function returning how many items the source has produced or None)."""
    if kind == "list":
        return list(items), None
    if kind == "tuple":
        return tuple(items), None
    if kind == "range":
        return range(len(items)), None
    if kind == "generator":
        cnt = [0]

        def gen():
            for v in items:
                cnt[0] += 1
                yield v
        return gen(), (lambda: cnt[0])
    src = CountingIter(items) if kind == "counting" else SizedCountingIter(items)
    return src, (lambda: src.taken)


def _has_len(kind):
    return kind in ("list", "range", "tuple", "sized-counting")


@st.composite
def progress_cases(draw):
    kind = draw(st.sampled_from(SOURCES))
    n = draw(st.sampled_from([0, 0, 1, 2, 3, 7, 10, 11, 25, 60]))
    tot = draw(st.sampled_from(["none", "none", "exact", "small", "zero", "large"]))
    if tot == "small":
        total = draw(st.integers(1, n - 1)) if n >= 2 else None
    elif tot == "zero":
        total = 0
    elif tot == "exact":
        total = n
    elif tot == "large":
        total = n + draw(st.integers(1, 50))
    else:
        total = None
    opts = {}
    if draw(st.booleans()):
        opts["desc"] = draw(st.sampled_from(["", "work", "a b: c", "%d %s"]))
    if draw(st.booleans()):
        opts["leave"] = draw(st.booleans())
    if draw(st.booleans()):
        opts["simple"] = draw(st.booleans())
    if draw(st.booleans()):
        opts["mininterval"] = draw(st.sampled_from([0, 0.5]))
    if draw(st.booleans()):
        opts["miniters"] = draw(st.sampled_from([1, 2, 7]))
    if draw(st.booleans()):
        opts["n_bars"] = draw(st.sampled_from([0, 1, 20, 57]))
    if total is not None:
        opts["total"] = total
    return {"source": kind, "n": n, "opts": opts, "entry": draw(st.sampled_from(["pbar", "PBar", "pbar"])),
            "take": draw(st.one_of(st.none(), st.integers(0, max(n, 1)))),
            "payload": draw(st.sampled_from(["ints", "ints", "mixed"]))}


def _check_wrapper(case, ctx, wrapper, expected, produced, has_len):
    """wrapper: the object returned by esutil; expected: list(iterable)."""
    opts = case["opts"]
    reject = bool(opts.get("simple")) and not has_len and opts.get("total") is None
    if reject:
        r = sut(lambda: list(wrapper))
        require(isinstance(r, Raised) and isinstance(r.exc, RuntimeError),
                "simple=True without len() and without total= must raise RuntimeError, got %r", r)
        ctx.count("documented-rejection")
        return
    require(iter(wrapper) is wrapper or hasattr(wrapper, "__iter__"), "pbar did not return an iterable")
    it = iter(wrapper)
    if produced is not None:
        require(produced() == 0, "the source was advanced %d times before any item was requested", produced())
    take = case["take"]
    got = []
    limit = len(expected) if take is None else min(take, len(expected))
    for k in range(limit):
        got.append(must(next, it))
        if produced is not None:
            require(produced() == k + 1, "after %d items were taken the source had been advanced %d times (not lazy)",
                    k + 1, produced())
    if take is None or take >= len(expected):
        r = sut(next, it)
        require(isinstance(r, Raised), "wrapper yielded more than the %d items of the iterable: %r", len(expected), r)
        require(isinstance(r.exc, StopIteration), "iterating the wrapper over a valid iterable failed after %d items: %r",
                len(got), r)
    require(got == expected[:limit], "wrapper yielded %r, the iterable has %r", got[:12], expected[:limit][:12])


def check_progress(case, ctx):
    import esutil.pbar as pb
    items = [(i * 7) % 5 - 1 for i in range(case["n"])]
    if case.get("payload") == "mixed":
        # arbitrary objects, falsy ones and None included: the wrapper yields *the items*
        pool = [None, 0, "", (), [], False, 0.0, "x", {"k": 1}]
        items = [pool[(i * 5 + case["n"]) % len(pool)] for i in range(case["n"])]
    if case["source"] == "range":
        items = list(range(case["n"]))
    src, produced = _make_source(case["source"], items)
    out = io.StringIO()
    fn = getattr(pb, case["entry"])
    wrapper = must(fn, src, file=out, **case["opts"])
    _check_wrapper(case, ctx, wrapper, items, produced, _has_len(case["source"]))


def classify_progress(case):
    o = case["opts"]
    labs = ["source:" + case["source"], "total:%s" % ("none" if "total" not in o else "exact" if o["total"] == case["n"]
                                                      else "zero" if o["total"] == 0 else "small" if o["total"] < case["n"] else "large"),
            "simple:%s" % o.get("simple", "default"), "n:%s" % ("0" if case["n"] == 0 else "1+"),
            "consume:%s" % ("all" if case["take"] is None or case["take"] >= case["n"] else "partial")]
    if not _has_len(case["source"]):
        labs.append("nt:length-less")
        if "total" not in o:
            labs.append("length-less,no-total")
    return labs


@st.composite
def prange_cases(draw):
    nargs = draw(st.integers(1, 3))
    if nargs == 1:
        args = [draw(st.integers(-3, 40))]
    elif nargs == 2:
        args = [draw(st.integers(-20, 20)), draw(st.integers(-20, 40))]
    else:
        step = draw(st.integers(1, 7)) * draw(st.sampled_from([1, -1]))
        args = [draw(st.integers(-30, 30)), draw(st.integers(-30, 30)), step]
    case = draw(progress_cases())
    case.update(source="range", args=args, entry="prange")
    n = len(range(*args))
    if "total" in case["opts"]:
        case["opts"]["total"] = draw(st.sampled_from([n, n + 3, max(0, n - 1), 0]))
    case["n"] = n
    return case


def check_prange(case, ctx):
    import esutil.pbar as pb
    out = io.StringIO()
    wrapper = must(pb.prange, *case["args"], file=out, **case["opts"])
    _check_wrapper(case, ctx, wrapper, list(range(*case["args"])), None, True)


def classify_prange(case):
    return ["nargs:%d" % len(case["args"]), "empty" if case["n"] == 0 else "nonempty",
            "simple:%s" % case["opts"].get("simple", "default")] + (["negative-step"] if len(case["args"]) == 3 and case["args"][2] < 0 else [])


# --------------------------------------------------------------------------- pmap
_PMAP_OFFSET = 0          # module state the task reads (changed between two pmap calls of one case)


def _g(value):
    return [value * 3 + 1 + _PMAP_OFFSET, "r%d" % value]


def pmap_task(item):
    """Module-level (picklable) task: sleeps the item's latency, then returns g(value)."""
    value, latency_ms = item
    if latency_ms:
        time.sleep(latency_ms / 1000.0)
    return _g(value)


@st.composite
def pmap_cases(draw):
    n = draw(st.sampled_from([0, 1, 2, 3, 5, 8, 12]))
    nproc = draw(st.sampled_from([1, 2, 2, 3, 4, 8]))
    pattern = draw(st.sampled_from(["decreasing", "decreasing", "random", "first-slow", "zero"]))
    if pattern == "decreasing":
        top = draw(st.integers(10, 20))
        lat = [int(round(top * (n - 1 - i) / max(1, n - 1))) for i in range(n)]
    elif pattern == "random":
        lat = draw(st.lists(st.integers(0, 20), min_size=n, max_size=n))
    elif pattern == "first-slow":
        lat = [20] + [0] * (n - 1) if n else []
    else:
        lat = [0] * n
    values = draw(st.lists(st.integers(-50, 50), min_size=n, max_size=n))
    opts = {}
    if draw(st.integers(0, 2)) == 0:
        opts["total"] = n
    if draw(st.booleans()):
        opts["desc"] = "pm"
    if draw(st.booleans()):
        opts["mininterval"] = 0
    if draw(st.integers(0, 3)) == 0:
        opts["leave"] = False
    if "total" in opts and draw(st.integers(0, 2)) == 0:
        opts["simple"] = True
    return {"values": values, "lat": lat, "nproc": nproc, "chunksize": draw(st.integers(1, n + 1)),
            "container": draw(st.sampled_from(["list", "tuple", "generator"])), "opts": opts,
            "defaults": draw(st.integers(0, 5)) == 0,
            "again": draw(st.sampled_from([None, None, 7, -3]))}


def check_pmap(case, ctx):
    import esutil.pbar as pb
    items = [(v, l) for v, l in zip(case["values"], case["lat"])]
    expected = [_g(v) for v in case["values"]]
    if case["container"] == "tuple":
        arg = tuple(items)
    elif case["container"] == "generator":
        arg = (x for x in items)
    else:
        arg = list(items)
    out = io.StringIO()
    if case["defaults"] and case["nproc"] == 1 and case["chunksize"] == 1:
        got = must(pb.pmap, pmap_task, arg, file=out, **case["opts"])
    else:
        got = must(pb.pmap, pmap_task, arg, chunksize=case["chunksize"], nproc=case["nproc"], file=out, **case["opts"])
    require(isinstance(got, list), "pmap must return a list, got %r", type(got))
    require(got == expected, "pmap(nproc=%d, chunksize=%d) returned %r, list(map(fn, items)) is %r",
            case["nproc"], case["chunksize"], got[:6], expected[:6])
    if case.get("again") and items:
        # a second map in the same process after the task's environment changed (a module global it reads):
        # list(map(fn, items)) is evaluated with the state at the time of the call
        global _PMAP_OFFSET
        old = _PMAP_OFFSET
        try:
            _PMAP_OFFSET = case["again"]
            expected2 = [_g(v) for v in case["values"]]
            arg2 = list(items)
            got2 = must(pb.pmap, pmap_task, arg2, chunksize=case["chunksize"], nproc=case["nproc"], file=out,
                        total=len(items))
            require(got2 == expected2, "second pmap call (nproc=%d) after the task's module state changed returned %r, "
                    "list(map(fn, items)) is now %r", case["nproc"], got2[:6], expected2[:6])
        finally:
            _PMAP_OFFSET = old


def classify_pmap(case):
    lat, n = case["lat"], len(case["lat"])
    labs = ["nproc:%d" % case["nproc"], "container:" + case["container"],
            "total:%s" % ("given" if "total" in case["opts"] else "none"),
            "chunksize:%s" % ("1" if case["chunksize"] == 1 else "n+1" if case["chunksize"] == n + 1 else "mid")]
    if n == 0:
        labs.append("empty")
    if n >= 2 and case["nproc"] >= 2 and all(a > b for a, b in zip(lat, lat[1:])):
        labs.append("nt:>=2-workers,decreasing-latency")
        if case["chunksize"] == 1:
            labs.append("decreasing-latency,chunksize-1")
    return labs


SUBCHECKS = [
    Subcheck("sort", sort_inputs_l, check_sort, classify_sort, quick=3000, thorough=60000, journal=False),
    Subcheck("sort_kv", kv_inputs, check_sort_kv, classify_sort_kv, quick=2000, thorough=40000, journal=False),
    Subcheck("isplit", isplit_cases, check_isplit, classify_isplit, quick=1200, thorough=30000, journal=False,
             exhaustive=isplit_exhaustive, exhaustive_tiers=("quick", "thorough")),
    Subcheck("splitarray", splitarray_cases, check_splitarray, classify_splitarray, quick=2000, thorough=40000,
             journal=False),
    Subcheck("progress", progress_cases, check_progress, classify_progress, quick=3000, thorough=60000, journal=False),
    Subcheck("prange", prange_cases, check_prange, classify_prange, quick=800, thorough=15000, journal=False),
    Subcheck("pmap", pmap_cases, check_pmap, classify_pmap, quick=320, thorough=4000, journal=False,
             max_shrink_s=60.0),
]
