"""C02 -- row/column subset reads of record files equal indexing the fully-read table.

Oracle: Python/numpy indexing of the whole table.  For binary files the whole table is the
array that was written (nothing of esutil computes the expectation); for text files it is the
full read of the same file (pinned by C04, and additionally compared with the written array:
integers/strings exactly, floats loosely), so subset reads are compared byte for byte without
any tolerance.
"""
import numpy as np
from hypothesis import strategies as st

from vp.api import Raised, Subcheck, Violation, must, require, sut
from vp.gen import rectext as RT
from vp.gen import tables as T

PROPERTY = "C02"
RULE = ("table = packed structured dtype of 1-5 fields (binary: i1..u8,f4,f8,bool,c8,c16,S1..S12, raw random bytes; "
        "text: no bool/complex, letter/digit strings, full-range ints, floats over 600 decades), scalar or 1-3-d "
        "sub-array fields, either byte order, 1-12 rows (1 in 20: up to 300), written binary or as text with "
        "delim in {',', ':', tab, space}; rows = none | scalar in [-n,n) (int, numpy int) | list/tuple/ndarray "
        "(several integer dtypes) over [0,n) in any order with repeats, also empty for keyword styles | "
        "slice(start,stop,step) with start,stop in [-n-2,n+2] or None and step in {None,1,2,3,n+1} | row list "
        "holding an index outside [-n,n) (must be rejected); columns = none | one name | list/tuple/ndarray of a "
        "non-empty subset in any order; access style = Recfile.read(rows=,columns=) / (fields=) / "
        "Recfile[cols].read(rows=) / Recfile.get_subset / recfile.read / Recfile[rows] / Recfile[cols][rows] / "
        "SFile[rows] / SFile[cols][rows] / SFile.read / sfile.read / io.read, with split=, reduce=, header=, "
        "nrows given or counted, handle mode r or r+. Thorough tier enumerates every slice for n=1..6 on a fixed "
        "3-field table through all bracket styles, binary and text. Sub-check sequence: 2-6 selections read one after "
        "the other through one open Recfile/SFile handle that never read the whole file (1 in 3 starts with a block "
        "of rows without the last column followed by a read that starts where the block ended); two thirds of the "
        "text tables keep their string cells as drawn (leading/trailing blanks, delimiter characters). "
        "Non-trivial: the selection is a proper subset or a re-ordering of rows or columns, or has a repeat, a "
        "negative scalar, a negative / out-of-range / empty slice bound, or uses split/reduce, or is a rejected "
        "row list. Distinct = distinct case JSON."
        " Also: near-progression row lists (a progression with moved interior elements, a range with a hole), every subset of >=2 rows of an 8-row table enumerated (thorough: also 10 rows), one-element index arrays, wide fields (rows up to 70 kB) and per-field byte order; the index arrays handed to the read are compared before/after.")
ASSUMPTIONS = [
    "text tables hold letter/digit strings only (no leading blanks, no delimiter characters): those inputs "
    "belong to C04, whose known scan defect would otherwise be re-reported here",
    "text subset reads are compared with the full read of the same file (exact), not with the written floats; "
    "the full read itself is compared with the written table exactly for ints/strings and to 1e-13 (f8) / 1e-6 "
    "(f4) relative for floats (C04 owns the digits)",
    "negative entries inside row lists are not generated (the statement does not say what they mean); "
    "scalars outside [-n,n) are not generated (outside the quantifier); slices have positive steps",
    "empty row lists only through keyword styles (in brackets an empty list is ambiguous between rows and columns)",
    "split= together with a single column *name*, and split= together with reduce=, are not generated "
    "(the statement does not say which wins)",
    "a scalar row may come back as a length-1 array or a 0-d record; both are accepted",
    "column names are str; column lists have no repeats",
]
TECHNIQUE = ("property-based testing (Hypothesis) against a numpy-indexing model of the whole table, all access styles, "
             "binary and text; exhaustive enumeration of slices (n<=3 quick, n<=6 thorough) and of all row subsets of an "
             "8-row table (thorough: also 10 rows)")
LEVEL_TEXT = ("Generated-input search plus an exhaustively enumerated slice sub-domain (thorough tier): every generated "
              "(table, rows, columns, access style, file form) is written with the real extension, read back through "
              "the selected style and compared byte for byte with numpy indexing of the whole table. Shows the "
              "property on the cases explored, not for all inputs.")

DELIMS = [None, None, None, ",", ":", "\t", " "]
KEYWORD_STYLES = ["rf.read(columns=)", "rf.read(fields=)", "rf[cols].read(rows=)", "rf.get_subset().read()",
                  "recfile.read()"]
BRACKET_STYLES = ["rf[rows]", "rf[cols][rows]", "sf[rows]", "sf[cols][rows]"]
SFILE_STYLES = ["SFile.read(columns=)", "SFile.read(fields=)", "sfile.read()", "io.read()"]
ROW_DTYPES = ["i8", "i8", "i4", "i2", "u1", "u8", ">i4"]


# ----------------------------------------------------------------------------- strategies

@st.composite
def _near_progression(draw, n):
    """Row lists that almost are a range or an arithmetic progression: same first element, first gap, last
    element and length, one or two interior elements moved off the progression (all elements stay distinct);
    or a range with a hole / one element appended; or an exact progression.  These are the shapes a
    'this list is really a slice' shortcut would mistake for one."""
    how = draw(st.sampled_from(["move-interior", "move-interior", "hole", "append", "exact"]))
    if how == "move-interior" and n >= 7:
        step = draw(st.integers(2, max(2, (n - 1) // 3)))
        k = draw(st.integers(4, max(4, (n - 1) // step + 1)))
    else:
        step = draw(st.integers(1, max(1, (n - 1) // 3)))
        k = draw(st.integers(3, max(3, min(12, (n - 1) // step + 1))))
    first = draw(st.integers(0, max(0, n - 1 - (k - 1) * step)))
    v = [first + i * step for i in range(k) if first + i * step < n]
    if how == "move-interior" and len(v) >= 4 and step >= 2:
        for i in draw(st.lists(st.integers(2, len(v) - 2), min_size=1, max_size=2, unique=True)):
            v[i] += draw(st.sampled_from([-1, 1])) * draw(st.integers(1, step - 1))
    elif how == "hole" and len(v) >= 3:
        del v[draw(st.integers(1, len(v) - 2))]
    elif how == "append":
        v.append(draw(st.integers(0, n - 1)))
    if draw(st.integers(0, 3)) == 0:
        v = list(draw(st.permutations(v)))
    return v


def _row_lists(n, allow_empty):
    if n >= 5:
        return st.one_of(_row_lists_plain(n, allow_empty), _row_lists_plain(n, allow_empty), _near_progression(n))
    return _row_lists_plain(n, allow_empty)


def _row_lists_plain(n, allow_empty):
    small = st.lists(st.integers(0, n - 1), min_size=0 if allow_empty else 1, max_size=min(2 * n + 2, 24))
    if n <= 24:
        perm = st.permutations(list(range(n))).flatmap(
            lambda p: st.integers(1, n).map(lambda k: list(p[:k])))
        return st.one_of(small, perm)
    spread = st.lists(st.integers(0, n - 1), min_size=1, max_size=40)
    return st.one_of(small, spread)


@st.composite
def _rows(draw, n, kinds, allow_empty=False):
    k = draw(st.sampled_from(kinds))
    if k == "none":
        return {"k": "none"}
    if k == "scalar":
        return {"k": "scalar", "v": draw(st.one_of(st.integers(-n, n - 1), st.sampled_from([-n, -1, 0, n - 1]))),
                "as": draw(st.sampled_from(["int", "int", "i8", "i4", "arr1"]))}
    if k in ("list", "tuple", "ndarray"):
        v = draw(_row_lists(n, allow_empty))
        r = {"k": k, "v": v}
        if k == "ndarray":
            r["dt"] = draw(st.sampled_from(ROW_DTYPES))
            if v and max(v) > np.iinfo(r["dt"]).max:
                r["dt"] = "i8"          # the index values must fit the index dtype
        return r
    if k == "slice":
        b = st.one_of(st.none(), st.integers(-n - 2, n + 2))
        return {"k": "slice", "v": [draw(b), draw(b), draw(st.sampled_from([None, None, 1, 2, 3, n + 1]))]}
    raise AssertionError(k)


@st.composite
def _bad_rows(draw, n):
    """A row list with at least one entry outside [-n, n); the others are valid rows in [0,n)."""
    bad = draw(st.one_of(st.integers(n, n + 3), st.sampled_from([n, n, 2 * n, n + 10 ** 6, 2 ** 40]),
                         st.integers(-n - 3, -n - 1)))
    good = draw(st.lists(st.integers(0, n - 1), min_size=0, max_size=4))
    pos = draw(st.integers(0, len(good)))
    v = good[:pos] + [bad] + good[pos:]
    k = draw(st.sampled_from(["list", "list", "tuple", "ndarray"]))
    r = {"k": k, "v": v}
    if k == "ndarray":
        r["dt"] = "i8"
    return r


@st.composite
def _cols(draw, names, kinds):
    k = draw(st.sampled_from(kinds))
    if k == "none":
        return {"k": "none"}
    if k == "name":
        return {"k": "name", "v": draw(st.sampled_from(names))}
    perm = draw(st.permutations(names))
    m = draw(st.integers(1, len(names)))
    return {"k": k, "v": list(perm[:m])}


@st.composite
def _table(draw):
    if draw(st.integers(0, 79)) == 0:
        # very many narrow binary rows (1-2 bytes each): row counts beyond 2^16 / 2^20, where a reader that works
        # in blocks of rows starts its second block
        code = draw(st.sampled_from(["|i1", "|u1", "<i2"]))
        n = draw(st.sampled_from([2 ** 16, 2 ** 20, 2 ** 21])) + draw(st.integers(1, 9))
        return None, {"descr": [["a", code]], "nrows": n, "fill": "rand", "seed": draw(st.integers(0, 2 ** 32 - 1)),
                      "cells": [], "kind": "binary"}
    delim = draw(st.sampled_from(DELIMS))
    t = draw(T.tables(kind="binary" if delim is None else "text", max_fields=5, max_rows=12, big_rows=300,
                        allow_mixed_order=True, sizes=True))
    if delim is not None and draw(st.integers(0, 2)) > 0:
        # string cells as drawn (printable ASCII incl. leading/trailing blanks, delimiter characters, quotes);
        # otherwise they are mapped to letters and digits
        t["rawstr"] = True
    return delim, t


def _names(t):
    return [e[0] for e in t["descr"]]


@st.composite
def keyword_cases(draw):
    delim, t = draw(_table())
    n = t["nrows"]
    style = draw(st.sampled_from(KEYWORD_STYLES))
    ckinds = ["none", "name", "list", "list", "tuple", "ndarray"]
    if style == "rf[cols].read(rows=)":
        ckinds = ckinds[1:]
    cols = draw(_cols(_names(t), ckinds))
    rows = draw(_rows(n, ["none", "scalar", "list", "list", "tuple", "ndarray"], allow_empty=True))
    split = cols["k"] != "name" and draw(st.integers(0, 3)) == 0
    return {"table": t, "delim": delim, "style": style, "rows": rows, "cols": cols, "split": split,
            "nrows_given": draw(st.booleans()), "reused": draw(st.sampled_from([False, False, True]))}


@st.composite
def bracket_cases(draw):
    delim, t = draw(_table())
    n = t["nrows"]
    style = draw(st.sampled_from(BRACKET_STYLES))
    if "cols" in style:
        cols = draw(_cols(_names(t), ["name", "list", "list", "tuple", "ndarray"]))
    else:
        cols = {"k": "none"}
    rows = draw(_rows(n, ["none", "scalar", "scalar", "list", "list", "tuple", "ndarray"]))
    return {"table": t, "delim": delim, "style": style, "rows": rows, "cols": cols,
            "nrows_given": draw(st.booleans()), "mode": draw(st.sampled_from(["r", "r", "r+"]))}


@st.composite
def slice_cases(draw):
    delim, t = draw(_table())
    n = t["nrows"]
    style = draw(st.sampled_from(BRACKET_STYLES))
    if "cols" in style:
        cols = draw(_cols(_names(t), ["name", "list", "list", "tuple", "ndarray"]))
    else:
        cols = {"k": "none"}
    rows = draw(_rows(n, ["slice"]))
    return {"table": t, "delim": delim, "style": style, "rows": rows, "cols": cols,
            "nrows_given": draw(st.booleans()), "mode": draw(st.sampled_from(["r", "r", "r+"]))}


@st.composite
def sfile_cases(draw):
    delim, t = draw(_table())
    n = t["nrows"]
    style = draw(st.sampled_from(SFILE_STYLES))
    cols = draw(_cols(_names(t), ["none", "name", "list", "list", "tuple", "ndarray"]))
    rows = draw(_rows(n, ["none", "scalar", "list", "list", "tuple", "ndarray"], allow_empty=True))
    post = "none"
    if style != "io.read()":
        opts = ["none", "none", "reduce", "reduce"] + ([] if cols["k"] == "name" else ["split"])
        post = draw(st.sampled_from(opts))
    return {"table": t, "delim": delim, "style": style, "rows": rows, "cols": cols, "post": post,
            "header": draw(st.booleans()), "mode": draw(st.sampled_from(["r", "r", "r+"]))}


@st.composite
def reject_cases(draw):
    delim, t = draw(_table())
    n = t["nrows"]
    style = draw(st.sampled_from(KEYWORD_STYLES + BRACKET_STYLES + SFILE_STYLES))
    if style in ("rf[rows]", "sf[rows]"):
        cols = {"k": "none"}
    elif "cols" in style:
        cols = draw(_cols(_names(t), ["name", "list", "tuple", "ndarray"]))
    else:
        cols = draw(_cols(_names(t), ["none", "none", "name", "list"]))
    return {"table": t, "delim": delim, "style": style, "rows": draw(_bad_rows(n)), "cols": cols,
            "nrows_given": draw(st.booleans()), "mode": "r", "reject": True}


@st.composite
def sequence_cases(draw):
    """Several selections read one after the other through ONE open handle that never read the whole file:
    whatever the handle remembers from one read (file position, buffers, cached rows) must not leak into the next."""
    delim, t = draw(_table())
    n = t["nrows"]
    names = _names(t)
    steps = []
    if n >= 4 and draw(st.integers(0, 2)) == 0:
        # a block of leading rows without the last column(s), then a read that starts where the block ended
        b = draw(st.integers(1, n - 2))
        a = draw(st.integers(0, b - 1))
        m = draw(st.integers(1, max(1, len(names) - 1)))
        steps.append({"rows": {"k": "list", "v": list(range(a, b + 1))}, "cols": {"k": "list", "v": names[:m]},
                      "how": draw(st.sampled_from(["read", "bracket"]))})
        c = draw(st.integers(b, min(n - 1, b + 2)))
        steps.append({"rows": {"k": "list", "v": sorted(set([c] + draw(st.lists(st.integers(c, n - 1), max_size=3))))},
                      "cols": draw(_cols(names, ["none", "name", "list"])), "how": draw(st.sampled_from(["read", "bracket"]))})
    for _ in range(draw(st.integers(1 if steps else 2, 4))):
        how = draw(st.sampled_from(["read", "bracket"]))
        kinds = ["none", "scalar", "list", "list", "ndarray"] + (["slice", "slice"] if how == "bracket" else [])
        steps.append({"rows": draw(_rows(n, kinds)), "cols": draw(_cols(names, ["none", "name", "list", "list"])),
                      "how": how})
    return {"table": t, "delim": delim, "steps": steps, "handle": draw(st.sampled_from(["recfile", "recfile", "sfile"])),
            "nrows_given": draw(st.booleans()), "mode": draw(st.sampled_from(["r", "r", "r+"]))}


def check_sequence(case, ctx):
    from esutil import recfile, sfile
    t = case["table"]
    data = _data(case)
    n = data.size
    delim = case["delim"]
    text = delim is not None
    fname = ctx.tmpfile("t.rec")
    if case["handle"] == "sfile":
        _write_sfile(case, data, fname)
        h = sfile.SFile(fname, case["mode"])
    else:
        _write_plain(case, data, fname)
        kw = {"dtype": data.dtype}
        if text:
            kw["delim"] = delim
        if case["nrows_given"]:
            kw["nrows"] = n
        h = recfile.Recfile(fname, case["mode"], **kw)
    results = []
    with h:
        for st_ in case["steps"]:
            rows, cols = _rows_obj(st_["rows"]), _cols_obj(st_["cols"])
            if st_["how"] == "read":
                res = must(h.read, rows=rows, columns=cols)
            elif cols is None:
                res = must(lambda: h[slice(None) if rows is None else rows])
            else:
                res = must(lambda: h[cols][slice(None) if rows is None else rows])
            results.append(res)
    # the reference table comes from a separate reader, after the sequence
    if text:
        rk = {"delim": delim}
        full = must(recfile.read, fname, data.dtype, **rk) if case["handle"] != "sfile" else must(sfile.read, fname)
        _check_full_text(full, data, "text full read")
        ref = full
    else:
        ref = data
    for i, (st_, res) in enumerate(zip(case["steps"], results)):
        what = "%s %s, read %d of %d on one open handle (%s rows=%r cols=%r)" % (
            "text" if text else "binary", case["handle"], i + 1, len(results), st_["how"], _rows_obj(st_["rows"]),
            _cols_obj(st_["cols"]))
        shape = "plain" if st_["cols"]["k"] == "name" else "struct"
        _verify(res, ref, _expected_index(st_["rows"], n), st_, shape, what)


def classify_sequence(case):
    t = case["table"]
    labs = set(x for x in T.describe(t) if not x.startswith("str-"))
    labs.add("form:text" if case["delim"] is not None else "form:binary")
    labs.add("handle:" + case["handle"])
    labs.add("reads:%d" % len(case["steps"]))
    n = t["nrows"]
    names = _names(t)
    prev_end = None
    for st_ in case["steps"]:
        idx = _expected_index(st_["rows"], n)
        sel = _file_order(names, st_["cols"])
        if prev_end is not None and idx.size and idx[0] > prev_end[0] and prev_end[1]:
            labs.add("nt:read-continues-after-partial-column-read")
        if idx.size and prev_end is not None and idx[0] <= prev_end[0]:
            labs.add("nt:read-goes-back")
        if idx.size:
            prev_end = (int(idx[-1]), names[-1] not in sel)
    if len(case["steps"]) >= 2:
        labs.add("nt:sequence")
    return sorted(labs)


# exhaustive slice sub-domain ------------------------------------------------------------

def _fixed_table(n):
    return {"descr": [["id", "<i4"], ["name", "|S3"], ["x", "<f8", [2]]], "nrows": n, "fill": "rand",
            "seed": 7 + n, "cells": [], "kind": "text"}


def exhaustive_slices(tier):
    nmax = 6 if tier == "thorough" else 3
    colsets = [{"k": "none"}, {"k": "name", "v": "name"}, {"k": "list", "v": ["x", "id"]}]
    for n in range(1, nmax + 1):
        t = _fixed_table(n)
        bounds = [None] + list(range(-n - 2, n + 3))
        for delim in (None, ","):
            for style in BRACKET_STYLES:
                for cols in colsets:
                    if ("cols" in style) != (cols["k"] != "none"):
                        continue
                    if tier != "thorough" and style.startswith("sf") and cols["k"] == "name":
                        continue
                    for a in bounds:
                        for b in bounds:
                            for s in (None, 1, 2, 3, n + 1):
                                yield {"table": t, "delim": delim, "style": style,
                                       "rows": {"k": "slice", "v": [a, b, s]}, "cols": cols,
                                       "nrows_given": True, "mode": "r"}


def exhaustive_rowsets(tier):
    """Every subset of >= 2 rows of an 8-row table (thorough: also 10 rows), as a sorted list, read with all
    columns and with a column subset, binary and text: no shortcut that treats some row lists specially
    (e.g. as a slice) can hide in a corner of the subset lattice."""
    import itertools
    for n in ((8,) if tier != "thorough" else (8, 10)):
        t = _fixed_table(n)
        for k in range(2, n + 1):
            for sub in itertools.combinations(range(n), k):
                rows = {"k": "list", "v": list(sub)}
                for delim in (None, ","):
                    yield {"table": t, "delim": delim, "style": "rf[rows]", "rows": rows, "cols": {"k": "none"},
                           "nrows_given": True, "mode": "r"}
                yield {"table": t, "delim": None, "style": "rf[cols][rows]", "rows": rows,
                       "cols": {"k": "list", "v": ["x", "id"]}, "nrows_given": True, "mode": "r"}


# ----------------------------------------------------------------------------- model

def _data(case):
    t = case["table"]
    a = T.build(t)
    if case["delim"] is not None and not t.get("rawstr"):
        a = RT.alnum_strings(a)
    return a


def _rows_obj(r):
    k = r["k"]
    if k == "none":
        return None
    if k == "scalar":
        if r["as"] == "arr1":
            return np.array([r["v"]], dtype="i8")       # one-element array: the same selection as the scalar
        return {"int": int, "i8": np.int64, "i4": np.int32}[r["as"]](r["v"])
    if k == "list":
        return list(r["v"])
    if k == "tuple":
        return tuple(r["v"])
    if k == "ndarray":
        return np.array(r["v"], dtype=r["dt"])
    if k == "slice":
        return slice(*r["v"])
    raise AssertionError(k)


def _cols_obj(c):
    k = c["k"]
    if k == "none":
        return None
    if k == "name":
        return c["v"]
    if k == "list":
        return list(c["v"])
    if k == "tuple":
        return tuple(c["v"])
    return np.array(c["v"])


def _expected_index(r, n):
    """Row numbers (ascending where the statement says so) selected from a table of n rows."""
    k = r["k"]
    if k == "none":
        return np.arange(n)
    if k == "scalar":
        return np.array([r["v"] % n])
    if k == "slice":
        return np.arange(n)[slice(*r["v"])]
    return np.array(sorted(set(r["v"])), dtype="i8")


def _file_order(names, c):
    if c["k"] == "none":
        return list(names)
    want = [c["v"]] if c["k"] == "name" else c["v"]
    return [nm for nm in names if nm in want]


def _same(got, want, what):
    require(isinstance(got, np.ndarray), "%s: got %r, not an ndarray", what, type(got))
    require(got.dtype == want.dtype, "%s: dtype %r, expected %r", what, got.dtype, want.dtype)
    require(got.shape == want.shape, "%s: shape %r, expected %r", what, got.shape, want.shape)
    gb, wb = np.ascontiguousarray(got).tobytes(), np.ascontiguousarray(want).tobytes()
    if gb != wb:
        i = next(k for k in range(len(wb)) if gb[k] != wb[k])
        per = max(1, len(wb) // max(1, want.shape[0]))
        raise Violation("%s: values differ first at byte %d (selected row #%d): got %s expected %s"
                        % (what, i, i // per, gb[i:i + 8].hex(), wb[i:i + 8].hex()))


def _lenient(a, want, scalar_row):
    """A scalar row may come back as a 0-d record / one element instead of a length-1 array."""
    if scalar_row and isinstance(a, (np.ndarray, np.generic)) and np.ndim(a) == want.ndim - 1:
        return np.asarray(a)[None]
    return a


def _describe(res):
    if res is None:
        return "None"
    return "%s dtype %r shape %r" % (type(res).__name__, getattr(res, "dtype", None), getattr(res, "shape", None))


def _verify(res, ref, idx, case, shape, what):
    """res = what esutil returned; ref = the whole table; idx = expected row numbers."""
    names = _file_order(ref.dtype.names, case["cols"])
    scalar_row = case["rows"]["k"] == "scalar"
    if shape == "plain":
        assert len(names) == 1, names
        want = ref[names[0]][idx]
        res = _lenient(res, want, scalar_row)
        require(isinstance(res, np.ndarray) and res.dtype.names is None,
                "%s: expected a plain array of column %r, got %s", what, names[0], _describe(res))
        _same(res, want, "%s column %r" % (what, names[0]))
        return
    if shape == "split":
        require(isinstance(res, (tuple, list)), "%s: split=True must return a tuple of arrays, got %s", what,
                _describe(res))
        require(len(res) == len(names), "%s: split returned %d arrays for columns %r", what, len(res), names)
        for a, nm in zip(res, names):
            want = ref[nm][idx]
            _same(_lenient(a, want, scalar_row), want, "%s split column %r" % (what, nm))
        return
    res = _lenient(res, ref[idx], scalar_row)
    require(isinstance(res, np.ndarray) and res.dtype.names is not None,
            "%s: expected a structured array with fields %r, got %s", what, names, _describe(res))
    require(list(res.dtype.names) == names, "%s: fields %r, expected %r (file order)", what, list(res.dtype.names), names)
    want_descr = [d for d in ref.dtype.descr if d[0] in names]
    require(res.dtype.descr == want_descr, "%s: dtype %r, expected %r", what, res.dtype.descr, want_descr)
    require(res.shape == (idx.size,), "%s: result has shape %r, expected rows %r", what, res.shape, idx.tolist()[:20])
    for nm in names:
        _same(res[nm], ref[nm][idx], "%s field %r" % (what, nm))


def _check_full_text(full, data, what):
    """The text form's full read against what was written (loose on floats: C04 owns the digits)."""
    require(isinstance(full, np.ndarray) and full.dtype.names == data.dtype.names and full.shape == data.shape,
            "%s: full read has names %r shape %r", what, getattr(full.dtype, "names", None), getattr(full, "shape", None))
    for nm in data.dtype.names:
        g, w = full[nm], data[nm]
        require(g.shape == w.shape, "%s: full read field %r shape %r != %r", what, nm, g.shape, w.shape)
        if w.dtype.kind == "f":
            rtol = 1e-13 if w.dtype.itemsize == 8 else 1e-6
            g64, w64 = g.astype("f8"), w.astype("f8")
            with np.errstate(invalid="ignore", over="ignore"):
                ok = (np.isnan(g64) & np.isnan(w64)) | (g64 == w64) | (np.abs(g64 - w64) <= rtol * np.abs(w64))
            require(bool(ok.all()), "%s: full text read of float field %r differs from what was written", what, nm)
        else:
            require(np.array_equal(g, w.astype(w.dtype.newbyteorder("="))),
                    "%s: full text read of field %r differs from what was written", what, nm)


# ----------------------------------------------------------------------------- access styles

def _write_plain(case, data, fname):
    from esutil import recfile
    kw = {} if case["delim"] is None else {"delim": case["delim"]}
    must(recfile.write, fname, data, **kw)


def _write_sfile(case, data, fname):
    from esutil import sfile
    kw = {} if case["delim"] is None else {"delim": case["delim"]}
    must(sfile.write, fname, data, **kw)


_HANDED = {}


def _args_intact(what):
    for k in ("rows", "cols"):
        before, now = _HANDED.get(k + "_before"), _HANDED.get(k)
        if before is not None:
            require(now.dtype == before.dtype and now.shape == before.shape and now.tobytes() == before.tobytes(),
                    "%s: the %s index array handed to the read was modified: %r -> %r (reusing it for the next "
                    "read selects other rows/columns)", what, k, before.tolist(), now.tolist())


def _read_style(case, data, fname, need_full):
    """Returns (result, full_read_or_None, shape) where shape is plain|split|struct."""
    import esutil
    from esutil import recfile, sfile
    style = case["style"]
    rows, cols = _rows_obj(case["rows"]), _cols_obj(case["cols"])
    # the index objects the caller hands over are his: remember them to see that the read leaves them alone
    # (an index array reused for the next file must still select the same rows)
    _HANDED["rows"], _HANDED["cols"] = rows, cols
    _HANDED["rows_before"] = rows.copy() if isinstance(rows, np.ndarray) else None
    _HANDED["cols_before"] = cols.copy() if isinstance(cols, np.ndarray) else None
    delim = case["delim"]
    n = data.size
    single = case["cols"]["k"] == "name"
    shape = "plain" if single else "struct"
    full = None
    if style.startswith("rf") or style == "recfile.read()":
        kw = {"dtype": data.dtype}
        if delim is not None:
            kw["delim"] = delim
        if case.get("nrows_given"):
            kw["nrows"] = n
        split = bool(case.get("split"))
        if split:
            shape = "split"
        if style == "recfile.read()":
            rk = dict(kw)
            rk.pop("dtype")
            if need_full:
                full = recfile.read(fname, data.dtype, **rk)
            res = recfile.read(fname, data.dtype, rows=rows, columns=cols, split=split, **rk)
            return res, full, shape
        if case.get("reused") and len(data.dtype.names) >= 2 and fname.endswith("t.rec"):
            # the reader object served another file before (the same columns in reverse order, one row more)
            # and is re-pointed with open(): nothing of the earlier file may leak into the reads below
            names = list(data.dtype.names)
            decoy = np.zeros(n + 1, dtype=[(nm, data.dtype[nm]) for nm in reversed(names)])
            for nm in names:
                decoy[nm][:n] = data[nm][::-1]
            dname = fname[:-5] + "decoy.rec"
            dk = {} if delim is None else {"delim": delim}
            with recfile.Recfile(dname, "w", **dk) as w:
                w.write(decoy)
            rf = recfile.Recfile(dname, "r", dtype=decoy.dtype, nrows=n + 1, **dk)
            rf.read(columns=names[0], rows=[0])
            rf[names[-1]][0:1]
            rf.open(fname, case.get("mode", "r"), **kw)
        else:
            rf = recfile.Recfile(fname, case.get("mode", "r"), **kw)
        with rf:
            require(rf.nrows == n, "Recfile.nrows=%r for a file of %d rows", rf.nrows, n)
            if need_full:
                full = rf.read()
            if style == "rf.read(columns=)":
                res = rf.read(rows=rows, columns=cols, split=split)
            elif style == "rf.read(fields=)":
                res = rf.read(rows=rows, fields=cols, split=split)
            elif style == "rf[cols].read(rows=)":
                res = rf[cols].read(rows=rows, split=split)
            elif style == "rf.get_subset().read()":
                res = rf.get_subset(rows=rows, columns=cols).read(split=split)
            elif style == "rf[rows]":
                res = rf[slice(None) if rows is None else rows]
            elif style == "rf[cols][rows]":
                res = rf[cols][slice(None) if rows is None else rows]
            else:
                raise AssertionError(style)
        return res, full, shape
    # self-describing files
    if style in ("sf[rows]", "sf[cols][rows]"):
        with sfile.SFile(fname, case.get("mode", "r")) as sf:
            require(sf.nrows == n, "SFile.nrows=%r for a file of %d rows", sf.nrows, n)
            if need_full:
                full = sf.read()
            if style == "sf[rows]":
                res = sf[slice(None) if rows is None else rows]
            else:
                res = sf[cols][slice(None) if rows is None else rows]
        return res, full, shape
    post = case.get("post", "none")
    kw = {"rows": rows}
    if post == "split":
        kw["split"] = True
        shape = "split"
    elif post == "reduce":
        kw["reduce"] = True
        if len(_file_order(data.dtype.names, case["cols"])) == 1:
            shape = "plain"
    if case.get("header"):
        kw["header"] = True
    if style == "SFile.read(columns=)" or style == "SFile.read(fields=)":
        kw["fields" if "fields" in style else "columns"] = cols
        with sfile.SFile(fname, case.get("mode", "r")) as sf:
            if need_full:
                full = sf.read()
            res = sf.read(**kw)
    elif style == "sfile.read()":
        kw["columns"] = cols
        if need_full:
            full = sfile.read(fname)
        res = sfile.read(fname, **kw)
    elif style == "io.read()":
        kw["columns"] = cols
        if need_full:
            full = esutil.io.read(fname)
        res = esutil.io.read(fname, **kw)
    else:
        raise AssertionError(style)
    if case.get("header"):
        require(isinstance(res, tuple) and len(res) == 2 and isinstance(res[1], dict),
                "%s(header=True) must return (data, header dict), got %r", style, type(res))
        require(res[1].get("_SIZE") == n, "%s: header _SIZE=%r for a file of %d rows", style, res[1].get("_SIZE"), n)
        res = res[0]
    return res, full, shape


def _is_sfile_style(style):
    return style.startswith("sf") or style.startswith("SFile") or style in ("sfile.read()", "io.read()")


def check(case, ctx):
    data = _data(case)
    n = data.size
    text = case["delim"] is not None
    style = case["style"]
    fname = ctx.tmpfile("t.rec")
    if _is_sfile_style(style):
        _write_sfile(case, data, fname)
    else:
        _write_plain(case, data, fname)
    what = "%s %s rows=%r cols=%r" % ("text" if text else "binary", style, _rows_obj(case["rows"]),
                                      _cols_obj(case["cols"]))
    if case.get("reject"):
        # positive control first: the same call with the offending entry removed (or row 0) works,
        # so an exception below is about the row list and not about the harness
        good = [v for v in case["rows"]["v"] if 0 <= v < n] or [0]
        ctl = dict(case, rows=dict(case["rows"], v=good))
        res, full, shape = _read_style(ctl, data, fname, text)
        _verify(res, full if text else data, _expected_index(ctl["rows"], n), ctl, shape, what + " (control)")
        r = sut(_read_style, case, data, fname, False)
        require(isinstance(r, Raised), "%s: a row list with an index outside [-n,n) (n=%d) must be rejected, "
                "but the read returned %s", what, n,
                _describe(r[0][0] if isinstance(r, tuple) and isinstance(r[0], (tuple, list)) and r[0]
                          else r[0] if isinstance(r, tuple) else r))
        if isinstance(r.exc, Violation):
            raise r.exc
        return
    r0 = case["rows"]
    if r0["k"] == "scalar" and r0.get("as") == "arr1" and r0["v"] < 0:
        # a one-element index *array* holding a negative row: the statement speaks of scalar rows in [-n,n) and
        # of row lists; whether -1 inside a list counts from the end is not stated, so a rejection is as
        # acceptable as the row n-1 -- but the caller's array must be left alone either way
        r = sut(_read_style, case, data, fname, text)
        _args_intact(what)
        if isinstance(r, Raised):
            if isinstance(r.exc, Violation):
                raise r.exc
            ctx.count("negative-one-element-array-rejected")
            return
        res, full, shape = r
    else:
        res, full, shape = _read_style(case, data, fname, text)
        _args_intact(what)
    if text:
        _check_full_text(full, data, what)
        ref = full
    else:
        ref = data
    _verify(res, ref, _expected_index(case["rows"], n), case, shape, what)


# ----------------------------------------------------------------------------- classes

def classify(case):
    t = case["table"]
    n = t["nrows"]
    names = _names(t)
    labs = set(x for x in T.describe(t) if not x.startswith("str-"))
    labs.add("form:text" if case["delim"] is not None else "form:binary")
    if case["delim"] is not None:
        labs.add("delim:%r" % case["delim"])
        labs.add("text-strings:" + ("as-drawn" if t.get("rawstr") else "alphanumeric"))
        if t.get("rawstr") and T.base_code(t["descr"][0][1])[0] == "S":
            labs.add("first-column-string-as-drawn")
    labs.add("style:" + case["style"])
    r, c = case["rows"], case["cols"]
    labs.add("rows:" + r["k"])
    labs.add("cols:" + c["k"])
    nt = False
    if case.get("reject"):
        labs.add("nt:rejected-row-list")
        labs.add("reject:single" if len(r["v"]) == 1 else "reject:multi")
        labs.add("reject:below" if min(r["v"]) < -n else "reject:above")
        return sorted(labs)
    idx = _expected_index(r, n)
    if r["k"] in ("list", "tuple", "ndarray"):
        v = r["v"]
        if len(v) == 0:
            labs.add("rows:empty-list")
            nt = True
        if len(set(v)) < len(v):
            labs.add("rows:repeat")
            nt = True
        if v != sorted(v):
            labs.add("rows:unsorted")
            nt = True
    if r["k"] == "scalar" and r["v"] < 0:
        labs.add("rows:negative-scalar")
        nt = True
    if r["k"] == "slice":
        a, b, s = r["v"]
        if (a is not None and a < 0) or (b is not None and b < 0):
            labs.add("slice:negative-bound")
            nt = True
        if (a is not None and not -n <= a <= n) or (b is not None and not -n <= b <= n):
            labs.add("slice:out-of-range-bound")
            nt = True
        if s is not None and s > 1:
            labs.add("slice:step>1")
        if idx.size == 0:
            labs.add("slice:empty")
            nt = True
    if idx.size < n:
        labs.add("rows:proper-subset")
        nt = True
    sel = _file_order(names, c)
    if len(sel) < len(names):
        labs.add("cols:proper-subset")
        nt = True
    if c["k"] in ("list", "tuple", "ndarray") and c["v"] != sel:
        labs.add("cols:reordered")
        nt = True
    if case.get("split") or case.get("post") == "split":
        labs.add("opt:split")
        nt = True
    if case.get("post") == "reduce":
        labs.add("opt:reduce-1col" if len(sel) == 1 else "opt:reduce-multi")
        nt = True
    if case.get("header"):
        labs.add("opt:header")
    if case.get("mode") == "r+":
        labs.add("mode:r+")
    if nt:
        labs.add("nt:selection")
    return sorted(labs)


def selftest():
    RT.selftest()
    # the model itself: ascending distinct rows, Python slices, file order
    assert _expected_index({"k": "list", "v": [3, 1, 3]}, 5).tolist() == [1, 3]
    assert _expected_index({"k": "slice", "v": [None, -1, None]}, 3).tolist() == [0, 1]
    assert _expected_index({"k": "slice", "v": [-9, 9, 2]}, 3).tolist() == [0, 2]
    assert _expected_index({"k": "scalar", "v": -1}, 4).tolist() == [3]
    assert _file_order(("a", "b", "c"), {"k": "list", "v": ["c", "a"]}) == ["a", "c"]


SANITIZE = True        # thorough tier: reduced pass against an ASan build of the extensions
SANITIZE_SCALE = 0.03

SUBCHECKS = [
    Subcheck("keyword", keyword_cases, check, classify, quick=2500, thorough=40000),
    Subcheck("bracket", bracket_cases, check, classify, quick=2000, thorough=30000,
             exhaustive=exhaustive_rowsets, exhaustive_tiers=("quick", "thorough")),
    Subcheck("sfile", sfile_cases, check, classify, quick=2000, thorough=40000),
    Subcheck("slices", slice_cases, check, classify, quick=900, thorough=30000,
             exhaustive=exhaustive_slices, exhaustive_tiers=("quick", "thorough")),
    Subcheck("reject", reject_cases, check, classify, quick=1200, thorough=15000),
    Subcheck("sequence", sequence_cases, check_sequence, classify_sequence, quick=2500, thorough=40000),
]
