"""C01 -- binary record files reproduce the written table bit-for-bit, header included.

Oracle: bit-level round trip (dtype descr, row bytes, file bytes after the header) and typed
recursive equality of the user header; nothing of esutil computes an expectation.
"""
import os

import numpy as np
from hypothesis import strategies as st

from vp.api import Subcheck, Violation, must, require
from vp.case import dec
from vp.gen import headers as H
from vp.gen import tables as T

PROPERTY = "C01"
RULE = ("table = packed structured dtype of 1-8 fields (i1..u8, f4, f8, bool, c8, c16, S1..S12; scalar or "
        "1-3-d sub-arrays with dims 1-3; one byte order per table or, 1 in 5, mixed per field; names from a "
        "pool containing END/WEEKEND/SIZE...), 1-40 rows (1 in 20: up to 3000), body zeros or raw random bytes "
        "(NaN payloads, inf, -0.0, denormals, extremes, embedded NULs) with up to 6 special-value overlays; "
        "optionally passed as a strided (non-contiguous) view; header none or a dict of up to 8 arbitrary "
        "string keys with recursive literal values (huge ints, finite floats, str with quotes/newlines/END/"
        "SIZE/non-ASCII, bytes, None, bools, nested list/tuple/dict); entry point drawn from sfile.write/read "
        "(both argument orders), SFile handle (read, [:], get_header, read_header), Recfile handle with and "
        "without nrows (read, [:]), recfile.write/read, io.write/io.read with and without header=True. "
        "Non-trivial: big-endian or sub-array field, or >=2 fields with a bytes field holding an embedded NUL, "
        "or a header with nesting / quote / newline / END, or a field name or key containing END/SIZE, or "
        ">4096 bytes of rows. Distinct = distinct case JSON."
        " Tables (shared generator): byte order per table or independently per field; one table in thirty has a wide field (string of 255..70001 bytes or a sub-array of 1100..9000 numbers), one binary table in forty a total size next to 4 KiB..3 MiB; user headers may carry reserved underscore names in any case (they need not survive, the table must).")
RULE += (" " + 'Also: the table handed over as a 2-/3-d array of records in C or Fortran memory order (its C-order records are the rows read back); one header in five carries user keys that contain a reserved name (col_delim, OUT_DTYPE, pix_size), which must survive.')
ASSUMPTIONS = [
    "arrays with at least one row, 1-d or (layout 2d) 2-/3-d arrays of records whose C-order sequence of records is "
    "the table that reading returns; packed dtypes (no padding/offsets); header keys are str",
    "header floats are finite (NaN/inf are not Python literals that eval() back)",
]
TECHNIQUE = "property-based round-trip testing (Hypothesis): bit-level write/read/inspect-file oracle over generated dtypes, values, headers and entry points"
LEVEL_TEXT = ("Generated-input search: every generated (dtype, values, header, entry point) combination is written "
              "and read back through the real extension and compared bit for bit, file bytes included. Shows the "
              "property on the cases explored, not for all inputs.")

SFILE_ENTRIES = ["sfile_fn", "sfile_swapped", "sfile_obj", "sfile_obj_getitem"]
REC_ENTRIES = ["recfile_obj", "recfile_obj_nrows", "recfile_obj_getitem", "recfile_fn", "recfile_fn_nrows"]
IO_ENTRIES = ["io", "io_header"]


def _cases(entries, with_header):
    @st.composite
    def strat(draw):
        t = draw(T.tables(kind="binary", allow_mixed_order=True, sizes=True))
        case = {"table": t, "entry": draw(st.sampled_from(entries)),
                "layout": draw(st.sampled_from(["contig", "contig", "contig", "contig", "strided", "offset", "2d", "2d-T"]))}
        if with_header:
            case["header"] = draw(H.headers())
        return case
    return strat


def _input_array(case):
    data = T.build(case["table"])
    if case["layout"] == "strided":
        big = np.zeros(data.size * 2 + 1, dtype=data.dtype)
        big[1::2] = data
        view = big[1::2]
        assert not view.flags.c_contiguous or data.size == 1
        return view, data
    if case["layout"] == "offset":
        big = np.zeros(data.size + 3, dtype=data.dtype)
        big[2:2 + data.size] = data
        return big[2:2 + data.size], data
    if case["layout"] in ("2d", "2d-T"):
        # a table held as a 2-d (or 3-d) array of records: its records, in C order, are the rows of the file
        n = data.size
        a = next((k for k in (2, 3, 5, 7) if n % k == 0 and n > k), 1)
        shape = (a, n // a) if n % 2 else (a, n // a, 1)
        arg = data.reshape(shape)
        if case["layout"] == "2d-T":
            arg = np.ascontiguousarray(arg.T).T          # same logical array, Fortran memory order
            assert arg.shape == shape
        return arg, data
    return data, data


def _compare(out, data, what):
    require(isinstance(out, np.ndarray), "%s: result is %r, not an ndarray", what, type(out))
    require(out.dtype.names == data.dtype.names, "%s: field names %r != written %r", what, out.dtype.names,
            data.dtype.names)
    require(out.dtype.descr == data.dtype.descr and out.dtype == data.dtype,
            "%s: dtype %r != written %r", what, out.dtype.descr, data.dtype.descr)
    require(out.shape == data.shape, "%s: shape %r != written %r", what, out.shape, data.shape)
    if out.tobytes() != data.tobytes():
        ob, db = out.tobytes(), data.tobytes()
        i = next(k for k in range(len(db)) if ob[k] != db[k])
        raise Violation("%s: row bytes differ first at byte %d (row %d): got %s want %s" % (
            what, i, i // data.dtype.itemsize, ob[i:i + 8].hex(), db[i:i + 8].hex()))


def _check_file_bytes(fname, data, with_header):
    with open(fname, "rb") as fh:
        raw = fh.read()
    body = data.tobytes()
    if not with_header:
        require(raw == body, "file holds %d bytes, the table is %d bytes%s", len(raw), len(body),
                "" if len(raw) != len(body) else " (content differs)")
        return
    require(raw.endswith(body), "the file's trailing %d bytes are not the table's bytes", len(body))
    head = raw[:len(raw) - len(body)]
    require(head.startswith(b"SIZE = "), "header does not start with 'SIZE = ': %r", head[:30])
    require(head.endswith(b"\nEND\n\n"), "header does not end with END + blank line: %r", head[-20:])


def _check_header(h, hdr, data, what):
    require(isinstance(h, dict), "%s: header is %r", what, type(h))
    require(h.get("_SIZE") == data.size and isinstance(h.get("_SIZE"), int),
            "%s: _SIZE=%r but %d rows were written", what, h.get("_SIZE"), data.size)
    require("_DTYPE" in h, "%s: no _DTYPE in header", what)
    try:
        rdt = np.dtype(h["_DTYPE"])
    except Exception as e:  # noqa: BLE001 - the stored description must reconstruct the dtype
        raise Violation("%s: _DTYPE %r does not reconstruct a dtype: %s" % (what, h["_DTYPE"], e))
    require(rdt == data.dtype and rdt.descr == data.dtype.descr, "%s: _DTYPE %r reconstructs %r, written %r",
            what, h["_DTYPE"], rdt.descr, data.dtype.descr)
    require(h.get("_DELIM") is None, "%s: binary file header carries _DELIM=%r", what, h.get("_DELIM"))
    for k, v in (hdr or {}).items():
        if H.is_reserved(k):
            continue            # reserved names need not survive (statement); the table must (checked by callers)
        require(k in h, "%s: user key %r missing from header read back (keys %r)", what, k, sorted(h))
        require(H.equal_typed(h[k], v), "%s: user key %r: read back %r, written %r", what, k, h[k], v)


def check_sfile(case, ctx):
    from esutil import sfile
    arg, data = _input_array(case)
    hdr = dec(case.get("header"))
    fname = ctx.tmpfile("t.rec")
    e = case["entry"]
    kw = {} if hdr is None else {"header": hdr}
    if e == "sfile_fn":
        must(sfile.write, fname, arg, **kw)
    elif e == "sfile_swapped":
        must(sfile.write, arg, fname, **kw)
    else:
        def w():
            if case["table"]["seed"] % 2:
                # an SFile object that already wrote (and read) another file and is re-pointed with open()
                decoy = ctx.tmpfile("decoy.rec")
                sf = sfile.SFile(decoy, "w")
                sf.write(arg[:1], header={"decoy": 1})
                sf.close()
                sf.open(decoy)
                sf.read()
                sf.close()
                sf.open(fname, "w")
                sf.write(arg, **kw)
                sf.close()
                return
            with sfile.SFile(fname, "w") as sf:
                sf.write(arg, **kw)
        must(w)
    _check_file_bytes(fname, data, True)
    if e in ("sfile_fn", "sfile_swapped"):
        r = must(sfile.read, fname, header=True)
        require(isinstance(r, tuple) and len(r) == 2, "sfile.read(header=True) returned %r", type(r))
        out, h = r
        _compare(out, data, "sfile.read")
        _compare(must(sfile.read, fname), data, "sfile.read (no header)")
    else:
        def r():
            with sfile.SFile(fname) as sf:
                if e == "sfile_obj":
                    o = sf.read()
                else:
                    o = sf[:]
                return o, sf.get_header(), sf.nrows, sf.dtype
        out, h, nrows, dt = must(r)
        _compare(out, data, "SFile.read" if e == "sfile_obj" else "SFile[:]")
        require(nrows == data.size, "SFile.nrows=%r, %d rows written", nrows, data.size)
        require(dt == data.dtype, "SFile.dtype=%r, written %r", dt, data.dtype)
    _check_header(h, hdr, data, e)
    h2 = must(sfile.read_header, fname)
    _check_header(h2, hdr, data, "sfile.read_header")


def check_recfile(case, ctx):
    from esutil import recfile
    arg, data = _input_array(case)
    fname = ctx.tmpfile("t.bin")
    e = case["entry"]
    if e.startswith("recfile_obj"):
        def w():
            with recfile.Recfile(fname, "w") as r:
                r.write(arg)
        must(w)
    else:
        must(recfile.write, fname, arg)
    _check_file_bytes(fname, data, False)
    kw = {"nrows": data.size} if e.endswith("nrows") else {}
    if e.startswith("recfile_obj"):
        def r():
            with recfile.Recfile(fname, "r", dtype=data.dtype, **kw) as rf:
                n = rf.nrows
                o = rf[:] if e == "recfile_obj_getitem" else rf.read()
                return o, n
        out, n = must(r)
        require(n == data.size, "Recfile.nrows=%r, %d rows written", n, data.size)
    else:
        out = must(recfile.read, fname, data.dtype, **kw)
    _compare(out, data, e)


def check_io(case, ctx):
    import esutil
    arg, data = _input_array(case)
    hdr = dec(case.get("header"))
    fname = ctx.tmpfile("t.rec")
    kw = {} if hdr is None else {"header": hdr}
    must(esutil.io.write, fname, arg, **kw)
    _check_file_bytes(fname, data, True)
    if case["entry"] == "io_header":
        r = must(esutil.io.read, fname, header=True)
        require(isinstance(r, tuple) and len(r) == 2, "io.read(header=True) returned %r", type(r))
        out, h = r
        _check_header(h, hdr, data, "io.read(header=True)")
    else:
        out = must(esutil.io.read, fname)
    _compare(out, data, "io.read")
    h = must(esutil.io.read, fname, header="only")
    _check_header(h, hdr, data, "io.read(header='only')")


def classify(case):
    t = case["table"]
    labs = set(T.describe(t))
    labs.add("entry:" + case["entry"])
    labs.add("layout:" + case["layout"])
    hdr = dec(case.get("header")) if "header" in case else None
    hl = H.labels(hdr) if "header" in case else set()
    labs |= hl
    nt = False
    if "big-endian" in labs or any(x.startswith("subarray") for x in labs):
        nt = True
    if "multi-field" in labs and "str-embedded-NUL" in labs:
        nt = True
    if hl & {"hdr:nested", "hdr:quote", "hdr:newline", "hdr:END", "hdr:SIZE"}:
        nt = True
    if "name-END/SIZE" in labs:
        nt = True
    if T.nbytes(t) > 4096:
        nt = True
        labs.add("bytes>4096")
    if nt:
        labs.add("nt:structure")
    return sorted(labs)


SANITIZE = True        # thorough tier: reduced pass against an ASan build of the extensions
SANITIZE_SCALE = 0.05

SUBCHECKS = [
    Subcheck("sfile", _cases(SFILE_ENTRIES, True), check_sfile, classify, quick=6000, thorough=100000),
    Subcheck("recfile", _cases(REC_ENTRIES, False), check_recfile, classify, quick=3600, thorough=60000),
    Subcheck("io", _cases(IO_ENTRIES, True), check_io, classify, quick=2400, thorough=40000),
]
