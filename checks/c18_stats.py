"""C18 -- weighted moments, sigma clipping, interpolation and cov/cor follow their definitions.

Oracles: the definitions written out here (sums in longdouble, the weighted median in exact
rational arithmetic, a reference clipping loop, a reference piecewise-linear interpolant).
Nothing of esutil computes an expectation.
"""
from fractions import Fraction

import numpy as np
from hypothesis import strategies as st

from vp.gen import layouts as LY
from vp.api import Raised, Subcheck, must, require, sut
from vp.case import dec, enc

PROPERTY = "C18"
RULE = ("wmom: arrays of size 1..300 (1-d) and N x d, d<=4 (floats to 1e6 of both signs, integer-valued, pools "
        "with ties, large common offset) with weights 1-d or N x d (all equal; log-uniform over 12 decades; small "
        "integers; a drawn subset exactly zero, never all) x inputmean absent/given x calcerr x sdev x container "
        "(ndarray/list/int dtype). wmedian: values with heavy ties x the same weight families (integer weights "
        "give exact half-weight ties, held strictly). sigma_clip: core (explicit deviates or PCG64 body, optionally "
        "quantised to produce ties) around centres 0..1e4 with scales 1e-3..50 plus 0..5 outliers at 10..1e6 sigma "
        "of either sign, nsig in [0.5,6], niter 0..10, with/without weights, get_err/get_indices on/off. interplin: "
        "strictly increasing tables of 2..50 nodes (float or integer) with queries inside, exactly on nodes and "
        "outside on either side, scalar or array. get_stats: 1-d and N x d, with weights (calcerr on/off), with "
        "nsig/niter. cov/cor: symmetric matrices 1x1..6x6 with positive diagonal over 12 decades, off-diagonals of "
        "either sign, plus matrices with one non-positive diagonal entry (must raise ValueError). "
        "Non-trivial: unequal weights with n>=3; a clip that removes >=1 point and iterates >=2 times; a query "
        "outside the table; (cov/cor: n>=2 with unequal diagonal). Distinct = distinct case JSON."
        " Also: array inputs as strided / negative-stride / record-field / byte-swapped views; whole data sets in u1/u8/i2 with an integer mean; per-column inputmean; inputmean through get_stats; wmedian on 1e3..1e4 elements with exact half-weight ties; clumped data for sigma_clip; interplin tables at scales 1e-12..1e9 and re-interpolated after the table was changed in place; integer / float32 covariance matrices.")
RULE += (" " + 'Also (covcor): after a rejected cov2cor call, wmom and sigma_clip on inputs whose arithmetic underflows must still return their defined values.')
ASSUMPTIONS = [
    "finite data; weights >= 0 with positive total (per column for N x d weights)",
    "tolerance 1e-12 relative to the data scale max|x| (+|inputmean|) for wmean / calcerr error / deviation "
    "(this is the conditioning-scaled form of '1e-12 relative': sum|w x|/sum w <= max|x|), 1e-12 relative for "
    "1/sqrt(sum w)",
    "inputmean is a scalar or, for N x d input, one value per column (the two documented forms)",
    "wmedian: if some cumulative weight is within 1e-12*total of the half and the weights are not small integers "
    "(float sums inexact), the value at the tie or the next value carrying weight is accepted",
    "sigma_clip: the index set is compared with the reference loop only when no |x-m| comes within "
    "1e-9*s + 1e-11*max|x| of nsig*s at any iteration and every intermediate subset has positive total weight; "
    "the statistics are always compared with those of the reported subset",
    "interplin: tolerance 1e-12*(|v_i|+|v_i+1|+|slope*(u-x_i)|); scalar queries come back as a 1-element array",
    "get_stats min/max are those of the input array (documented 'stats for the input array'), also with clipping",
    "cov/cor: entries within 1e-12 relative; boxcar_average is not part of the statement and is not checked",
]
TECHNIQUE = ("property-based testing (Hypothesis) against the written-out definitions: longdouble sums, exact "
             "rational weighted median, reference clipping loop, reference piecewise-linear interpolant")
LEVEL_TEXT = ("Generated-input search against direct definitions; shows the property on every generated case, "
              "never the absence of violations.")

LD = np.longdouble
# squares of deviations below ~1e-154 underflow in float64 (numpy's own std returns 0 there): absolute floor
ABS_FLOOR = 1e-150


# ------------------------------------------------------------------------------ shared bits

def _weights(draw, n, allow_zero=True):
    kind = draw(st.sampled_from(["equal", "decades", "ints", "unit"]))
    if kind == "equal":
        w = [draw(st.sampled_from([1.0, 0.5, 3.0, 1e-6, 1e6]))] * n
    elif kind == "unit":
        w = draw(st.lists(st.floats(0.01, 1.0), min_size=n, max_size=n))
    elif kind == "ints":
        w = [float(v) for v in draw(st.lists(st.integers(1, 4), min_size=n, max_size=n))]
    else:
        w = draw(st.lists(st.floats(-6.0, 6.0).map(lambda e: 10.0 ** e), min_size=n, max_size=n))
    if allow_zero and n >= 2 and draw(st.integers(0, 2)) == 0:
        zeros = draw(st.lists(st.integers(0, n - 1), min_size=1, max_size=max(1, n // 2), unique=True))
        if len(zeros) < n:
            w = list(w)
            for i in zeros:
                w[i] = 0.0
    return kind, w


def _values(draw, n):
    kind = draw(st.sampled_from(["float", "int", "pool", "offset", "wide", "u1range", "i2range"]))
    if kind == "u1range":
        el = st.integers(0, 255).map(float)             # fits an unsigned byte
    elif kind == "i2range":
        el = st.integers(-3000, 3000).map(float)        # fits a 2-byte integer; squares do not
    elif kind == "float":
        el = st.floats(-1e3, 1e3)
    elif kind == "int":
        el = st.integers(-50, 50).map(float)
    elif kind == "pool":
        el = st.sampled_from(draw(st.lists(st.one_of(st.floats(-10, 10), st.integers(-3, 3).map(float)),
                                           min_size=1, max_size=4)))
    elif kind == "offset":
        c = draw(st.sampled_from([1e4, -1e6, 123456.789]))
        el = st.floats(-1.0, 1.0).map(lambda t, c=c: c + t)
    else:
        el = st.builds(lambda s, e: s * 10.0 ** e, st.sampled_from([1.0, -1.0]), st.floats(-6.0, 6.0))
    return kind, draw(st.lists(el, min_size=n, max_size=n))


def _unequal(w):
    w = np.asarray(w, dtype="f8")
    return w.size >= 3 and np.unique(w).size > 1


def _close(got, exp, tol):
    got, exp = float(got), float(exp)
    return np.isfinite(got) and abs(got - exp) <= tol


def _size():
    return st.sampled_from([1, 2, 3, 3, 5, 5, 10, 10, 30, 100, 300])


# ------------------------------------------------------------------------------ wmom

@st.composite
def wmom_cases(draw):
    n = draw(_size())
    d = draw(st.sampled_from([0, 0, 0, 1, 2, 3, 4]))          # 0 = 1-d input
    if d and n > 100:
        n = 100
    cols = max(d, 1)
    kinds, arr = [], []
    # one case in six is a narrow-integer data set as a whole (counts, pixel values, ADU): every column fits the
    # type, the array is handed over in that type, and a supplied mean is an integer
    intmode = draw(st.sampled_from([None, None, None, None, None, "u1array", "u8array", "i2array"]))
    for _ in range(cols):
        if intmode:
            el = (st.integers(0, 255) if intmode != "i2array" else st.integers(-3000, 3000)).map(float)
            k, v = ("u1range" if intmode != "i2array" else "i2range"), draw(st.lists(el, min_size=n, max_size=n))
        else:
            k, v = _values(draw, n)
        kinds.append(k)
        arr.append(v)
    wshape = "1d"
    wk, w = _weights(draw, n)
    wcols = [w]
    if d and draw(st.booleans()):
        wshape = "nd"
        wcols = [w] + [_weights(draw, n)[1] for _ in range(cols - 1)]
    inputmean = None
    if intmode and draw(st.booleans()):
        inputmean = draw(st.integers(0, 5) if intmode != "i2array" else st.integers(-5, 5))
    elif draw(st.integers(0, 3)) == 0:
        one = st.one_of(st.floats(-1e3, 1e3), st.integers(-5, 5).map(float), st.integers(-5, 5))
        inputmean = draw(one)
        if d and draw(st.booleans()):
            # documented form for N x d input: one value per column
            inputmean = [float(draw(one)) for _ in range(cols)]
    return {"n": n, "d": d, "arr": enc(arr), "w": enc(wcols), "wshape": wshape, "wkind": wk,
            "vkind": kinds[0], "inputmean": inputmean, "calcerr": draw(st.booleans()),
            "sdev": draw(st.booleans()),
            "container": intmode or draw(st.sampled_from(["array", "array", "list", "intarray"])),
            "layout": draw(st.sampled_from(LY.KINDS)),
            "wdtype": draw(st.sampled_from([None, None, None, "f4", "f2", "i4"]))}


def _wmom_inputs(case):
    cols = [np.array(c, dtype="f8") for c in dec(case["arr"])]
    wcols = [np.array(c, dtype="f8") for c in dec(case["w"])]
    if case["d"] == 0:
        arr, w = cols[0], wcols[0]
    else:
        arr = np.stack(cols, axis=1)
        w = np.stack(wcols, axis=1) if case["wshape"] == "nd" else wcols[0]
    return arr, w


def check_wmom(case, ctx):
    import esutil.stat as es
    arr, w = _wmom_inputs(case)
    a_in, w_in = arr, w
    integral = bool(np.all(arr == np.round(arr)) and np.abs(arr).max() < 2 ** 40)
    if case["container"] == "list":
        a_in, w_in = arr.tolist(), w.tolist()
    elif case["container"] == "intarray" and integral:
        a_in = arr.astype("i8")
    elif case["container"] == "i2array" and integral and np.abs(arr).max() < 2 ** 15:
        a_in = arr.astype("i2")
    elif case["container"] in ("u1array", "u8array") and integral and arr.min() >= 0 and arr.max() < 256:
        a_in = arr.astype(case["container"][:2])
    wd = case.get("wdtype")
    if wd and case["container"] in ("array", "intarray"):
        # weights stored in another type (single/half precision, small integers): the weights are those values
        w = w.astype(wd).astype("f8") if wd != "i4" else np.maximum(np.round(w), 0.0)
        if not (np.isfinite(w).all() and (w.sum(axis=0) > 0).all()):
            w = np.ones_like(w)
        w_in = w.astype(wd)
    if case["container"] == "array" and case.get("layout") and not wd:
        a_in = np.asfortranarray(arr) if (arr.ndim == 2 and case["layout"] == "strided") else LY.relayout(arr, case["layout"])
        w_in = LY.relayout(w, case["layout"])
    kw = {"calcerr": case["calcerr"], "sdev": case["sdev"]}
    im = case["inputmean"]
    if im is not None:
        kw["inputmean"] = np.array(im, dtype="f8") if isinstance(im, list) and case["container"] != "list" else im
    r = must(es.wmom, a_in, w_in, **kw)
    require(isinstance(r, tuple) and len(r) == (3 if case["sdev"] else 2),
            "wmom returned %r, expected a %d-tuple", type(r), 3 if case["sdev"] else 2)
    a2 = arr.reshape(arr.shape[0], -1).astype(LD)
    w2 = (w.reshape(w.shape[0], -1) if w.ndim == 2 else w[:, None]).astype(LD)
    w2 = np.broadcast_to(w2, a2.shape)
    ncol = a2.shape[1]
    wtot = w2.sum(axis=0)
    if case["inputmean"] is None:
        mean = (w2 * a2).sum(axis=0) / wtot
    else:
        mean = np.zeros(ncol, dtype=LD) + np.asarray(im, dtype=LD)
    if case["calcerr"]:
        err = np.sqrt((w2 ** 2 * (a2 - mean) ** 2).sum(axis=0)) / wtot
    else:
        err = 1.0 / np.sqrt(wtot)
    sd = np.sqrt((w2 * (a2 - mean) ** 2).sum(axis=0) / wtot)
    scale = np.abs(arr.reshape(arr.shape[0], -1)).max(axis=0).astype("f8")
    if im is not None:
        scale = scale + np.abs(np.asarray(im, dtype="f8"))
    names = ["wmean", "werr", "wsdev"]
    exps = [mean, err, sd]
    for k, got in enumerate(r):
        g = np.asarray(got, dtype="f8")
        if case["d"] == 0:
            require(g.ndim == 0, "%s of a 1-d input is not a scalar: shape %r", names[k], g.shape)
        elif k == 0 and case["inputmean"] is not None:
            require(g.ndim == 0 or g.shape == (ncol,), "wmean with inputmean has shape %r", g.shape)
        else:
            require(g.shape == (ncol,), "%s of an N x %d input has shape %r", names[k], ncol, g.shape)
        gg = np.broadcast_to(g, (ncol,))
        for j in range(ncol):
            if k == 1 and not case["calcerr"]:
                tol = 1e-12 * float(exps[k][j])
            else:
                tol = 1e-12 * float(scale[j]) + ABS_FLOOR
            require(_close(gg[j], exps[k][j], tol),
                    "%s[col %d]=%r, definition gives %r (n=%d, calcerr=%r, inputmean=%r, tol %.3g)", names[k], j,
                    float(gg[j]), float(exps[k][j]), arr.shape[0], case["calcerr"], case["inputmean"], tol)


def classify_wmom(case):
    arr, w = _wmom_inputs(case)
    labs = ["d:%d" % case["d"], "wshape:" + case["wshape"], "wkind:" + case["wkind"], "vkind:" + case["vkind"],
            "calcerr:%s" % case["calcerr"], "sdev:%s" % case["sdev"],
            "inputmean:%s" % ("none" if case["inputmean"] is None else "per-column" if isinstance(case["inputmean"], list)
                              else "scalar"), "container:" + case["container"],
            "n:%s" % ("1" if case["n"] == 1 else "2" if case["n"] == 2 else "3+")]
    if (np.asarray(w) == 0).any():
        labs.append("zero-weights")
    col0 = w if w.ndim == 1 else w[:, 0]
    if _unequal(col0):
        labs.append("nt:unequal-weights")
    return labs


# ------------------------------------------------------------------------------ wmedian

@st.composite
def wmedian_cases(draw):
    if draw(st.integers(0, 9)) == 0:
        # large inputs (expanded from a seed): equal or small-integer weights make the cumulative weight hit
        # exactly half the total, values come from a small pool or are all distinct
        return {"big": {"n": draw(st.sampled_from([1000, 1001, 1002, 2048, 4097, 10001])),
                        "seed": draw(st.integers(0, 2 ** 32 - 1)),
                        "values": draw(st.sampled_from(["distinct", "pool"])),
                        "weights": draw(st.sampled_from(["equal", "small-int", "uniform"]))},
                "vkind": "big", "wkind": "big", "container": "array"}
    n = draw(_size())
    vk, v = _values(draw, n)
    if draw(st.booleans()):
        # heavier ties
        pool = v[:max(1, min(len(v), draw(st.integers(1, 4))))]
        v = draw(st.lists(st.sampled_from(pool), min_size=n, max_size=n))
        vk = "ties"
    wk, w = _weights(draw, n)
    return {"v": enc(v), "w": enc(w), "vkind": vk, "wkind": wk,
            "container": draw(st.sampled_from(["array", "array", "list"])), "layout": draw(st.sampled_from(LY.KINDS))}


def _wmedian_accept(v, w):
    """Set of admissible answers under the definition (see ASSUMPTIONS)."""
    order = np.argsort(v, kind="stable")
    vals = v[order].tolist()
    ws = [Fraction(x) for x in w[order].tolist()]
    total = sum(ws)
    half = total / 2
    # float sums are exact for dyadic weights with few bits (1, 3, 0.5, 2.5, 1e6 ...): ties are then held strictly
    exactw = all((2 ** 20 * x).denominator == 1 and x < 2 ** 30 for x in ws)
    # group by distinct value
    groups = []
    for val, wt in zip(vals, ws):
        if groups and groups[-1][0] == val:
            groups[-1][1] += wt
        else:
            groups.append([val, wt])
    cum = Fraction(0)
    ans = None
    for gi, (val, wt) in enumerate(groups):
        cum += wt
        if ans is None and cum >= half:
            ans = gi
        groups[gi].append(cum)
    acc = {groups[ans][0]}
    if not exactw:
        tol = total * Fraction(1, 10 ** 12)
        for gi, (val, wt, c) in enumerate(groups):
            if abs(c - half) <= tol:
                # float rounding may stop here or run on to the next value that carries weight
                acc.add(val)
                for val2, wt2, _ in groups[gi + 1:]:
                    acc.add(val2)
                    if wt2 > 0:
                        break
    return acc, len(acc) > 1


def _wmedian_arrays(case):
    if "big" not in case:
        return np.array(dec(case["v"]), dtype="f8"), np.array(dec(case["w"]), dtype="f8")
    b = case["big"]
    rng = np.random.Generator(np.random.PCG64(b["seed"]))
    n = b["n"]
    v = rng.permutation(n).astype("f8") if b["values"] == "distinct" else rng.integers(0, 7, n).astype("f8")
    w = (np.ones(n) if b["weights"] == "equal" else rng.integers(1, 4, n).astype("f8") if b["weights"] == "small-int"
         else rng.uniform(0.1, 2.0, n))
    return v, w


def check_wmedian(case, ctx):
    import esutil.stat as es
    v, w = _wmedian_arrays(case)
    if case["container"] == "list":
        got = must(es.wmedian, v.tolist(), w.tolist())
    else:
        lay = case.get("layout", "contig")
        got = must(es.wmedian, LY.relayout(v, lay), LY.relayout(w, lay))
    acc, amb = _wmedian_accept(v, w)
    if amb:
        ctx.count("wmedian-near-tie")
    require(np.ndim(got) == 0, "wmedian did not return a scalar: %r", got)
    require(float(got) in acc, "wmedian=%r; smallest sorted value whose cumulative weight reaches half the total "
            "is %r (values %r weights %r)", float(got), sorted(acc), v.tolist()[:20], w.tolist()[:20])


def classify_wmedian(case):
    v, w = _wmedian_arrays(case)
    labs = ["wkind:" + case["wkind"], "vkind:" + case["vkind"], "container:" + case["container"]]
    if "big" in case:
        labs.append("nt:size>=1000")
    if np.unique(v).size < v.size:
        labs.append("value-ties")
    if (w == 0).any():
        labs.append("zero-weights")
    order = np.argsort(v, kind="stable")
    ws = [Fraction(x) for x in w[order].tolist()]
    half = sum(ws) / 2
    c = Fraction(0)
    for x in ws:
        c += x
        if c == half:
            labs.append("exact-half-weight-tie")
            break
    if _unequal(w):
        labs.append("nt:unequal-weights")
    return labs


# ------------------------------------------------------------------------------ sigma_clip

@st.composite
def clip_cases(draw, for_get_stats=False):
    n = draw(st.sampled_from([1, 2, 3, 5, 8, 10, 20, 30, 100, 300]))
    center = draw(st.sampled_from([0.0, 0.0, 1.0, -5.0, 100.0, 1e4]))
    sigma = draw(st.sampled_from([1.0, 1.0, 1e-3, 0.1, 50.0]))
    case = {"n": n, "center": center, "sigma": sigma}
    if draw(st.integers(0, 7)) == 0:
        # data with points lying exactly on nsig*s in exact float arithmetic: p pairs at c +- nsig*t and
        # 2p(nsig^2-1) points at c give mean c, deviation t; integer everything -> the strict '<' is decidable
        nsx, t = draw(st.sampled_from([(2, 1), (2, 2), (2, 3), (3, 1), (3, 2), (1.5, 2), (2.5, 2), (1, 1), (1, 4)]))
        p = draw(st.integers(1, 3))
        if nsx == 1.5:
            p = 2 * p
        if nsx == 2.5:
            p = 2 * p
        z = int(round(2 * p * (nsx * nsx - 1)))
        c = draw(st.integers(-50, 50))
        a = int(round(nsx * t))
        vals = [c + a] * p + [c - a] * p + [c] * z
        perm = draw(st.permutations(list(range(len(vals)))))
        return {"n": len(vals), "exact": [float(vals[i]) for i in perm], "center": float(c), "sigma": float(t),
                "quant": 0, "outliers": [], "nsig": draw(st.sampled_from([nsx, float(nsx)])),
                "niter": draw(st.integers(1, 10)), "wmode": "none", "get_err": draw(st.booleans()),
                "get_indices": draw(st.booleans()), "defaults": False}
    if draw(st.integers(0, 7)) == 0:
        # clumps: two or three groups of nearly equal values plus stragglers, clipped at about one deviation.
        # The window of a later iteration is then not nested in that of an earlier one (the mean moves towards
        # a clump that was discarded), which separates "discard from the current subset" from "re-select from
        # all the data".
        k = draw(st.integers(2, 3))
        centers = draw(st.lists(st.integers(-20, 20), min_size=k, max_size=k, unique=True))
        vals = []
        for c in centers:
            vals += [float(c + draw(st.sampled_from([0, 0, 0, 1, -1]))) for _ in range(draw(st.integers(1, 4)))]
        vals += [float(v) for v in draw(st.lists(st.integers(-40, 40), min_size=0, max_size=3))]
        perm = draw(st.permutations(list(range(len(vals)))))
        return {"n": len(vals), "exact": [vals[i] for i in perm], "center": 0.0, "sigma": 1.0, "quant": 0,
                "outliers": [], "nsig": draw(st.sampled_from([1, 1.0, 0.75, 1.25, 1.5, 0.5, 2.0])),
                "niter": draw(st.integers(2, 10)), "wmode": "none", "get_err": draw(st.booleans()),
                "get_indices": draw(st.booleans()), "defaults": False, "clumps": True}
    if draw(st.integers(0, 5)) == 0:
        # data picked (from clump-like candidates expanded from a seed) so that "discard from the current subset"
        # and "re-select from all the data in every iteration" end with different survivors -- judged, as always,
        # against the first, which is what the statement says
        return {"n": 0, "reentry": draw(st.integers(0, 2 ** 32 - 1)), "center": 0.0, "sigma": 1.0, "quant": 0,
                "outliers": [], "nsig": draw(st.sampled_from([1, 1.0, 0.75, 1.25, 1.5, 2.0])),
                "niter": draw(st.integers(2, 10)), "wmode": "none", "get_err": draw(st.booleans()),
                "get_indices": draw(st.booleans()), "defaults": False, "clumps": True}
    if n <= 30 and draw(st.booleans()):
        case["z"] = draw(st.lists(st.floats(-3.0, 3.0), min_size=n, max_size=n))
    else:
        case["seed"] = draw(st.integers(0, 2 ** 32 - 1))
    case["quant"] = draw(st.sampled_from([0, 0, 0, 1, 2]))     # round deviates to 1/quant sigma -> ties
    nout = draw(st.sampled_from([0, 1, 1, 2, 3, 5]))
    if draw(st.integers(0, 2)) == 0:
        # staircase: one outlier per decade, so that every iteration removes exactly one of them
        case["outliers"] = [[draw(st.integers(0, n)), draw(st.sampled_from([1, -1])), lg]
                            for lg in [6.0, 5.0, 4.0, 3.0, 2.0][:nout]]
    else:
        case["outliers"] = [[draw(st.integers(0, n)), draw(st.sampled_from([1, -1])),
                             draw(st.one_of(st.floats(1.0, 6.0), st.sampled_from([1.0, 2.0, 3.0, 4.0, 6.0])))]
                            for _ in range(nout)]
    case["nsig"] = draw(st.one_of(st.floats(0.5, 6.0), st.sampled_from([0.5, 1.0, 2.0, 3.0, 4.0, 6.0]),
                                  st.sampled_from([3, 4])))
    case["niter"] = draw(st.integers(0, 10))
    wmode = draw(st.sampled_from(["none", "none", "equal", "seeded", "ints"]))
    case["wmode"] = wmode
    if wmode != "none":
        case["wseed"] = draw(st.integers(0, 2 ** 32 - 1))
        case["wzero"] = draw(st.sampled_from([0.0, 0.0, 0.2]))
    case["get_err"] = draw(st.booleans())
    case["get_indices"] = draw(st.booleans())
    case["defaults"] = draw(st.integers(0, 7)) == 0          # use the default nsig/niter (4, 4)
    case["layout"] = draw(st.sampled_from(LY.KINDS))
    case["default_extra"] = draw(st.sampled_from([False, False, True]))
    return case


_REENTRY_CACHE = {}


def _alt_clip(x, nsig, niter):
    """Survivors under the OTHER reading (every iteration re-selects from all the data); None if a point sits
    within rounding of a threshold.  Used only to pick inputs on which the two readings differ."""
    idx = np.arange(x.size)
    m, e, s = _subset_stats(x, None)
    xl = x.astype(LD)
    for _ in range(niter):
        dev = np.abs(xl - m)
        thr = LD(nsig) * s
        if np.any(np.abs(dev - thr) <= LD(1e-9) * s + LD(1e-11) * np.abs(xl).max()):
            return None
        new = np.nonzero(dev < thr)[0]
        if new.size == 0 or (new.size == idx.size and np.array_equal(new, idx)):
            break
        idx = new
        m, e, s = _subset_stats(x[idx], None)
    return idx


def _reentry_data(seed, nsig, niter):
    key = (seed, float(nsig), niter)
    if key in _REENTRY_CACHE:
        return _REENTRY_CACHE[key]
    rng = np.random.Generator(np.random.PCG64(seed))
    x = np.array([0.0, 1.0, 5.0])
    for _ in range(300):
        vals = []
        for c in rng.integers(-20, 21, size=int(rng.integers(2, 4))).tolist():
            vals += [float(c + j) for j in rng.integers(-1, 2, size=int(rng.integers(1, 5))).tolist()]
        vals += [float(v) for v in rng.integers(-40, 41, size=int(rng.integers(0, 4))).tolist()]
        x = np.array(vals, dtype="f8")[rng.permutation(len(vals))]
        ref, decidable, _ = _ref_clip(x, None, nsig, niter)
        if not decidable:
            continue
        alt = _alt_clip(x, nsig, niter)
        if alt is not None and set(alt.tolist()) != set(ref.tolist()):
            break
    if len(_REENTRY_CACHE) > 2000:
        _REENTRY_CACHE.clear()
    _REENTRY_CACHE[key] = x
    return x


def _clip_arrays(case):
    n = case["n"]
    if "reentry" in case:
        return _reentry_data(case["reentry"], case["nsig"], case["niter"]).copy(), None
    if "exact" in case:
        return np.array(dec(case["exact"]), dtype="f8"), None
    if "z" in case:
        z = np.array(dec(case["z"]), dtype="f8")
    else:
        z = np.random.Generator(np.random.PCG64(case["seed"])).standard_normal(n)
    if case["quant"]:
        z = np.round(z * case["quant"]) / case["quant"]
    x = (case["center"] + case["sigma"] * z).tolist()
    for pos, sign, lg in sorted(case["outliers"], key=lambda t: -t[0]):
        x.insert(pos, case["center"] + sign * (10.0 ** lg) * case["sigma"])
    x = np.array(x, dtype="f8")
    w = None
    if case["wmode"] != "none":
        rng = np.random.Generator(np.random.PCG64(case["wseed"]))
        if case["wmode"] == "equal":
            w = np.full(x.size, 2.5)
        elif case["wmode"] == "ints":
            w = rng.integers(1, 5, x.size).astype("f8")
        else:
            w = 10.0 ** rng.uniform(-3, 3, x.size)
        if case["wzero"] > 0 and x.size >= 2:
            zmask = rng.uniform(0, 1, x.size) < case["wzero"]
            if not zmask.all():
                w[zmask] = 0.0
    return x, w


def _subset_stats(x, w):
    """(mean, err, std) of a subset by definition; None if undefined (zero total weight)."""
    xl = x.astype(LD)
    n = x.size
    if w is None:
        m = xl.sum() / n
        s = np.sqrt(((xl - m) ** 2).sum() / n)
        return m, s / np.sqrt(LD(n)), s
    wl = w.astype(LD)
    wt = wl.sum()
    if not wt > 0:
        return None
    m = (wl * xl).sum() / wt
    s = np.sqrt((wl * (xl - m) ** 2).sum() / wt)
    e = np.sqrt((wl ** 2 * (xl - m) ** 2).sum()) / wt
    return m, e, s


def _pow2(d):
    return d & (d - 1) == 0


def _exact_clip_step(cur, nsig):
    """Unweighted subset `cur` (float64).  If every float64 operation esutil performs (mean, deviations,
    squares, their mean, sqrt, nsig*s, the comparison) is provably exact -- small integer data whose mean is a
    short dyadic rational, whose variance is the square of a short dyadic rational, and a short dyadic nsig --
    return the exact keep mask; else None.  This lets points lying *exactly* on nsig*s be held strictly."""
    if cur.size > 4096 or not np.all(cur == np.round(cur)) or np.abs(cur).max() >= 2 ** 20:
        return None
    xs = [int(v) for v in cur.tolist()]
    n = len(xs)
    m = Fraction(sum(xs), n)
    if not (_pow2(m.denominator) and m.denominator <= 2 ** 10):
        return None
    var = sum((Fraction(v) - m) ** 2 for v in xs) / n
    if not (_pow2(var.denominator) and var.denominator <= 2 ** 30 and var.numerator < 2 ** 50):
        return None
    import math
    rn, rd = math.isqrt(var.numerator), math.isqrt(var.denominator)
    if rn * rn != var.numerator or rd * rd != var.denominator:
        return None
    sdev = Fraction(rn, rd)
    ns = Fraction(float(nsig))
    if not (_pow2(ns.denominator) and ns.denominator <= 2 ** 10 and ns < 2 ** 10):
        return None
    thr = ns * sdev
    return np.array([abs(Fraction(v) - m) < thr for v in xs], dtype=bool)


def _ref_clip(x, w, nsig, niter):
    """Reference loop.  Returns (indices, decidable, removing_iterations)."""
    idx = np.arange(x.size)
    st_ = _subset_stats(x, None if w is None else w)
    if st_ is None:
        return idx, False, 0
    m, e, s = st_
    removing = 0
    for _ in range(niter):
        keep = _exact_clip_step(x[idx], nsig) if w is None else None
        if keep is None:
            cur = x[idx].astype(LD)
            dev = np.abs(cur - m)
            thr = LD(nsig) * s
            if np.any((dev > 0) & (dev < LD(1e-150))):
                # squared deviations underflow in float64 (they do not in the longdouble reference): which
                # points are "within nsig deviations" is then an artefact of the arithmetic, not decidable
                return idx, False, removing
            margin = LD(1e-9) * s + LD(1e-11) * np.abs(cur).max()
            if np.any(np.abs(dev - thr) <= margin):
                return idx, False, removing
            keep = dev < thr
        nk = int(keep.sum())
        if nk == 0 or nk == idx.size:
            break
        idx = idx[keep]
        removing += 1
        st_ = _subset_stats(x[idx], None if w is None else w[idx])
        if st_ is None:
            return idx, False, removing
        m, e, s = st_
    return idx, True, removing


def check_clip(case, ctx):
    import esutil.stat as es
    x, w = _clip_arrays(case)
    extra = {}
    kw = {"get_err": case["get_err"], "get_indices": case["get_indices"], "extra": extra, "silent": True}
    if case.get("default_extra"):
        # the caller does not pass extra= and asks for the indices in the return value; an earlier call in the same
        # process (other data, points clipped there) must leave no trace
        must(es.sigma_clip, np.array([0.0, 0.0, 0.0, 0.0, 1.0, 1000.0, -1000.0] * 3), nsig=1.0, niter=5, silent=True)
        del kw["extra"]
        kw["get_indices"] = True
    nsig, niter = 4, 4
    if not case["defaults"]:
        nsig, niter = case["nsig"], case["niter"]
        kw["nsig"], kw["niter"] = nsig, niter
    lay = case.get("layout", "contig")
    if w is not None:
        kw["weights"] = LY.relayout(w, lay)
    r = must(es.sigma_clip, LY.relayout(x, lay), **kw)
    nret = 2 + int(case["get_err"]) + int(kw["get_indices"])
    require(isinstance(r, (list, tuple)) and len(r) == nret, "sigma_clip returned %d values, expected %d",
            len(r) if isinstance(r, (list, tuple)) else -1, nret)
    if "extra" in kw:
        require("indices" in extra, "extra['indices'] was not filled in")
        ind = np.asarray(extra["indices"])
    else:
        ind = np.asarray(r[-1])
    if kw["get_indices"] and "extra" in kw:
        require(np.array_equal(np.asarray(r[-1]), ind), "returned indices differ from extra['indices']")
    require(ind.ndim == 1 and ind.size >= 1 and ind.dtype.kind in "iu", "indices malformed: %r", ind)
    require(np.all(np.diff(ind) > 0) and ind[0] >= 0 and ind[-1] < x.size,
            "indices are not a strictly increasing subset of range(%d): %r", x.size, ind.tolist()[:40])
    # (a) the statistics are those of exactly the reported subset
    st_ = _subset_stats(x[ind], None if w is None else w[ind])
    if st_ is None:
        ctx.count("clip-zero-weight-subset")
        return
    m, e, s = st_
    scale = float(np.abs(x[ind]).max())
    tol = 1e-12 * scale + ABS_FLOOR
    require(_close(r[0], m, tol), "mean=%r but the reported subset %r has mean %r", float(r[0]),
            ind.tolist()[:30], float(m))
    require(_close(r[1], s, tol), "stdev=%r but the reported subset %r has deviation %r", float(r[1]),
            ind.tolist()[:30], float(s))
    if case["get_err"]:
        require(_close(r[2], e, tol), "err=%r but the reported subset has error %r", float(r[2]), float(e))
    # (b) the subset is the fixed point of the clipping loop
    ref, decidable, _ = _ref_clip(x, w, nsig, niter)
    if not decidable:
        ctx.count("clip-near-threshold-or-undefined")
        return
    require(np.array_equal(ind, ref), "surviving indices differ from the reference loop: %d kept %r, reference "
            "%d kept %r (nsig=%r niter=%r)", ind.size, ind.tolist()[:30], ref.size, ref.tolist()[:30], nsig, niter)


def classify_clip(case):
    x, w = _clip_arrays(case)
    nsig, niter = (4, 4) if case["defaults"] else (case["nsig"], case["niter"])
    ref, decidable, removing = _ref_clip(x, w, nsig, niter)
    labs = ["weights:" + case["wmode"], "outliers:%d" % len(case["outliers"]),
            "family:" + ("readings-differ" if "reentry" in case else "clumps" if case.get("clumps") else "exact-threshold" if "exact" in case else
                         "explicit" if "z" in case else "seeded"),
            "niter:%s" % ("0" if niter == 0 else "1" if niter == 1 else "2+"),
            "removing-iterations:%s" % min(removing, 3), "decidable:%s" % decidable,
            "get_err:%s" % case["get_err"], "get_indices:%s" % case["get_indices"]]
    if decidable and removing == niter and niter > 0:
        labs.append("stopped-by-niter")
    if decidable and removing >= 2:
        labs.append("nt:clip-iterates")
    return labs


# ------------------------------------------------------------------------------ interplin

@st.composite
def interp_cases(draw):
    n = draw(st.sampled_from([2, 2, 3, 4, 5, 10, 50]))
    integer = draw(st.integers(0, 4)) == 0
    if integer:
        x0 = draw(st.integers(-100, 100))
        xs = [x0]
        for inc in draw(st.lists(st.integers(1, 20), min_size=n - 1, max_size=n - 1)):
            xs.append(xs[-1] + inc)
        vs = draw(st.lists(st.integers(-1000, 1000), min_size=n, max_size=n))
    else:
        # scale of the abscissae: mostly of order one, one table in four tiny or huge (the relative spacing
        # stays >= 6e-9, so the table is strictly increasing in float64 at every scale)
        sc = draw(st.sampled_from([1.0, 1.0, 1.0, 1.0, 1.0, 1.0, 1e-12, 1e-9, 1e-6, 1e6, 1e9]))
        x0 = sc * draw(st.one_of(st.floats(-1e3, 1e3), st.sampled_from([0.0, -1.0, 1e5])))
        xs = [x0]
        for inc in draw(st.lists(st.one_of(st.floats(1e-3, 1e3), st.sampled_from([1.0, 0.5])),
                                 min_size=n - 1, max_size=n - 1)):
            nxt = xs[-1] + sc * inc
            xs.append(nxt)
        vs = draw(st.lists(st.one_of(st.floats(-1e6, 1e6), st.integers(-3, 3).map(float)), min_size=n, max_size=n))
    nq = draw(st.sampled_from([1, 1, 2, 5, 20]))
    qs = []
    span = float(xs[-1] - xs[0])
    for _ in range(nq):
        mode = draw(st.sampled_from(["inside", "inside", "node", "node", "below", "above", "first", "last"]))
        if mode == "inside":
            i = draw(st.integers(0, n - 2))
            t = draw(st.floats(0.0, 1.0))
            qs.append([mode, float(xs[i]) + t * float(xs[i + 1] - xs[i])])
        elif mode == "node":
            qs.append([mode, float(xs[draw(st.integers(0, n - 1))])])
        elif mode == "first":
            qs.append(["node", float(xs[0])])
        elif mode == "last":
            qs.append(["node", float(xs[-1])])
        else:
            dd = draw(st.one_of(st.floats(1e-3, 1.0), st.floats(1.0, 1e4), st.floats(0.0, 3.0).map(lambda f, s=span: f * s)))
            dd = max(dd, 1e-6)
            if not integer:
                dd = dd * sc if dd * sc > 0 else dd
            qs.append([mode, float(xs[0]) - dd if mode == "below" else float(xs[-1]) + dd])
    return {"x": enc(xs), "v": enc(vs), "integer": integer, "q": enc(qs),
            "scalar": nq == 1 and draw(st.booleans()),
            "container": draw(st.sampled_from(["array", "array", "list"]))}


def check_interp(case, ctx):
    import esutil.stat as es
    dt = "i8" if case["integer"] else "f8"
    x = np.array(dec(case["x"]), dtype=dt)
    v = np.array(dec(case["v"]), dtype=dt)
    u = np.array([q[1] for q in dec(case["q"])], dtype="f8")
    require_sorted = np.all(np.diff(x.astype(LD)) > 0)
    if not require_sorted:           # by construction impossible (increments >= 1e-3 on |x| <= 1e5+5e4)
        raise AssertionError("generator produced a non-increasing table")
    if case["scalar"]:
        uin = float(u[0])
    else:
        uin = u.tolist() if case["container"] == "list" else u
    if case["container"] == "list":
        got = must(es.interplin, v.tolist(), x.tolist(), uin)
    else:
        got = must(es.interplin, v, x, uin)
    got = np.asarray(got, dtype="f8")
    require(got.size == u.size, "interplin returned %d values for %d queries", got.size, u.size)
    got = got.reshape(-1)
    xl, vl = x.astype(LD), v.astype(LD)
    n = x.size
    xf = x.astype("f8")
    for j, uq in enumerate(u.tolist()):
        # segment: the one containing u (either neighbour when u sits on a node), the first/last one outside
        cands = set()
        for side in ("left", "right"):
            i = int(np.searchsorted(xf, uq, side=side)) - 1
            cands.add(min(max(i, 0), n - 2))
        ok, info = False, []
        for i in sorted(cands):
            term = (LD(uq) - xl[i]) * (vl[i + 1] - vl[i]) / (xl[i + 1] - xl[i])
            exp = vl[i] + term
            tol = 1e-12 * float(abs(vl[i]) + abs(vl[i + 1]) + abs(term)) + ABS_FLOOR
            ok = ok or _close(got[j], exp, tol)
            info.append((float(x[i]), float(x[i + 1]), float(v[i]), float(v[i + 1]), float(exp)))
        require(ok, "interplin(u=%r)=%r; piecewise-linear value per admissible segment (x_i, x_i+1, v_i, v_i+1, "
                "value): %r", uq, float(got[j]), info)
    if case["container"] != "list" and not case.get("_second") and x.size >= 2:
        # the caller updates his table in place and interpolates again with the same array objects:
        # the answer must follow the new contents
        v2 = v.copy()
        v2[:] = v[::-1] if not np.array_equal(v, v[::-1]) else v + 1
        x2 = x.copy()
        case2 = dict(case, v=enc(v2.tolist()), _second=True)
        v[...] = v2                  # in place: same objects as in the first call
        got2 = np.asarray(must(es.interplin, v, x, uin), dtype="f8").reshape(-1)
        ref = _interp_ref(x2, v2, u)
        for j in range(u.size):
            require(any(_close(got2[j], e, t) for e, t in ref[j]), "interplin after the table values were changed in "
                    "place (same array objects): u=%r gives %r, the new table gives %r", float(u[j]), float(got2[j]),
                    [float(e) for e, _ in ref[j]])


def _interp_ref(x, v, u):
    """Per query: list of (value, tolerance) for each admissible segment of the piecewise-linear interpolant."""
    xl, vl = x.astype(LD), v.astype(LD)
    n = x.size
    xf = x.astype("f8")
    out = []
    for uq in u.tolist():
        cands = set()
        for side in ("left", "right"):
            i = int(np.searchsorted(xf, uq, side=side)) - 1
            cands.add(min(max(i, 0), n - 2))
        lst = []
        for i in sorted(cands):
            term = (LD(uq) - xl[i]) * (vl[i + 1] - vl[i]) / (xl[i + 1] - xl[i])
            lst.append((vl[i] + term, 1e-12 * float(abs(vl[i]) + abs(vl[i + 1]) + abs(term)) + ABS_FLOOR))
        out.append(lst)
    return out


def classify_interp(case):
    modes = [q[0] for q in dec(case["q"])]
    labs = ["nodes:%s" % ("2" if len(dec(case["x"])) == 2 else "3+"), "integer:%s" % case["integer"],
            "scalar:%s" % case["scalar"], "container:" + case["container"]]
    labs += sorted(set("query:" + m for m in modes))
    if "below" in modes or "above" in modes:
        labs.append("nt:query-outside")
    return labs


# ------------------------------------------------------------------------------ get_stats

@st.composite
def stats_cases(draw):
    mode = draw(st.sampled_from(["plain", "plain2d", "weights", "weights2d", "clip", "clip"]))
    if mode in ("clip",):
        case = draw(clip_cases())
        case["mode"] = "clip"
        case["clip_kw"] = draw(st.sampled_from(["both", "nsig", "niter"]))
        return case
    n = draw(_size())
    if mode.endswith("2d"):
        n = min(n, 100)
    cols = draw(st.integers(1, 4)) if mode.endswith("2d") else 1
    arr = [_values(draw, n)[1] for _ in range(cols)]
    case = {"mode": mode, "arr": enc(arr), "n": n}
    if mode.startswith("weights"):
        wk, w = _weights(draw, n)
        case["w"] = enc(w)
        case["wkind"] = wk
        case["calcerr"] = draw(st.sampled_from([None, True, False]))
        if draw(st.integers(0, 3)) == 0:
            # "extra keywords for wmom (if using weights)" are documented to be passed through
            case["inputmean"] = draw(st.one_of(st.floats(-100.0, 100.0), st.integers(-3, 3).map(float)))
    case["container"] = draw(st.sampled_from(["array", "list", "intarray"]))
    return case


def check_get_stats(case, ctx):
    import esutil.stat as es
    if case["mode"] == "clip":
        x, w = _clip_arrays(case)
        extra = {}
        kw = {"extra": extra, "silent": True}
        nsig, niter = 4, 4
        if case["clip_kw"] in ("both", "nsig"):
            nsig = kw["nsig"] = case["nsig"]
        if case["clip_kw"] in ("both", "niter"):
            niter = kw["niter"] = case["niter"]
        if w is not None:
            kw["weights"] = w
        r = must(es.get_stats, x, **kw)
        require(isinstance(r, dict) and all(k in r for k in ("mean", "std", "err", "min", "max")),
                "get_stats result lacks keys: %r", r)
        require(float(r["min"]) == float(x.min()) and float(r["max"]) == float(x.max()),
                "min/max=%r/%r, the array has %r/%r", r["min"], r["max"], float(x.min()), float(x.max()))
        require("indices" in extra, "sigma-clip keywords were not forwarded (extra['indices'] missing)")
        ind = np.asarray(extra["indices"])
        st_ = _subset_stats(x[ind], None if w is None else w[ind])
        if st_ is None:
            ctx.count("clip-zero-weight-subset")
            return
        m, e, s = st_
        tol = 1e-12 * float(np.abs(x[ind]).max()) + ABS_FLOOR
        require(_close(r["mean"], m, tol) and _close(r["std"], s, tol) and _close(r["err"], e, tol),
                "get_stats(clip) mean/std/err=%r/%r/%r, the surviving subset has %r/%r/%r", r["mean"], r["std"],
                r["err"], float(m), float(s), float(e))
        ref, decidable, _ = _ref_clip(x, w, nsig, niter)
        if not decidable:
            ctx.count("clip-near-threshold-or-undefined")
            return
        require(np.array_equal(ind, ref), "get_stats(nsig=%r, niter=%r) kept %r, reference loop keeps %r", nsig,
                niter, ind.tolist()[:30], ref.tolist()[:30])
        return
    cols = [np.array(c, dtype="f8") for c in dec(case["arr"])]
    two_d = case["mode"].endswith("2d")
    arr = np.stack(cols, axis=1) if two_d else cols[0]
    a_in = arr
    if case["container"] == "list":
        a_in = arr.tolist()
    elif case["container"] == "intarray" and np.all(arr == np.round(arr)) and np.abs(arr).max() < 2 ** 40:
        a_in = arr.astype("i8")
    kw = {}
    w = None
    if case["mode"].startswith("weights"):
        w = np.array(dec(case["w"]), dtype="f8")
        kw["weights"] = w
        if case["calcerr"] is not None:
            kw["calcerr"] = case["calcerr"]
        if case.get("inputmean") is not None:
            kw["inputmean"] = case["inputmean"]
    r = must(es.get_stats, a_in, **kw)
    require(isinstance(r, dict) and all(k in r for k in ("mean", "std", "err", "min", "max")),
            "get_stats result lacks keys: %r", r)
    a2 = arr.reshape(arr.shape[0], -1)
    ncol = a2.shape[1]
    for k in ("mean", "std", "err", "min", "max"):
        g = np.asarray(r[k])
        require(g.shape == ((ncol,) if two_d else ()), "get_stats[%r] has shape %r", k, g.shape)
    for j in range(ncol):
        col = a2[:, j]
        if w is None:
            m, e, s = _subset_stats(col, None)
        else:
            m, e2, s = _subset_stats(col, w)
            if case.get("inputmean") is not None:
                # moments about the supplied mean
                wl, xl = w.astype(LD), col.astype(LD)
                m = LD(case["inputmean"])
                s = np.sqrt((wl * (xl - m) ** 2).sum() / wl.sum())
                e2 = np.sqrt((wl ** 2 * (xl - m) ** 2).sum()) / wl.sum()
            calcerr = True if case["calcerr"] is None else case["calcerr"]
            e = e2 if calcerr else 1.0 / np.sqrt(w.astype(LD).sum())
        tol = 1e-12 * (float(np.abs(col).max()) + abs(float(case.get("inputmean") or 0.0))) + ABS_FLOOR
        etol = tol if (w is None or case["calcerr"] in (None, True)) else 1e-12 * float(e)
        g = {k: float(np.asarray(r[k]).reshape(-1)[j]) for k in r}
        require(g["min"] == float(col.min()) and g["max"] == float(col.max()), "col %d: min/max=%r/%r, data %r/%r",
                j, g["min"], g["max"], float(col.min()), float(col.max()))
        require(_close(g["mean"], m, tol), "col %d: mean=%r, definition %r", j, g["mean"], float(m))
        require(_close(g["std"], s, tol), "col %d: std=%r, definition %r", j, g["std"], float(s))
        require(_close(g["err"], e, etol), "col %d: err=%r, definition %r (weights=%r calcerr=%r)", j, g["err"],
                float(e), w is not None, case.get("calcerr"))


def classify_stats(case):
    labs = ["mode:" + case["mode"]]
    if case["mode"] == "clip":
        labs += [lab for lab in classify_clip(case) if not lab.startswith("get_")]
        labs.append("clip_kw:" + case["clip_kw"])
        return labs
    labs.append("container:" + case["container"])
    if case["mode"].startswith("weights"):
        labs.append("calcerr:%s" % case["calcerr"])
        if _unequal(dec(case["w"])):
            labs.append("nt:unequal-weights")
    return labs


# ------------------------------------------------------------------------------ cov / cor

@st.composite
def cov_cases(draw):
    n = draw(st.sampled_from([1, 2, 2, 3, 3, 4, 5, 6]))
    dk = draw(st.sampled_from(["unit", "decades", "small-int", "int-matrix"]))
    if dk == "int-matrix":
        # an integer-valued covariance, handed over as an integer array / nested list of ints / float32
        diag = [float(v) for v in draw(st.lists(st.integers(1, 30), min_size=n, max_size=n))]
        off = []
        for i in range(n):
            for j in range(i + 1, n):
                lim = int(np.sqrt(diag[i] * diag[j]))
                off.append(float(draw(st.integers(-lim, lim))))
        return {"n": n, "diag": enc(diag), "off": enc(off), "dkind": dk, "bad": enc(None),
                "as": draw(st.sampled_from(["i8", "i4", "list-of-int", "f4", "f8"]))}
    if dk == "unit":
        diag = [1.0] * n
    elif dk == "small-int":
        diag = [float(v) for v in draw(st.lists(st.integers(1, 9), min_size=n, max_size=n))]
    else:
        diag = draw(st.lists(st.floats(-6.0, 6.0).map(lambda e: 10.0 ** e), min_size=n, max_size=n))
    rho = draw(st.lists(st.one_of(st.floats(-1.0, 1.0), st.sampled_from([0.0, 1.0, -1.0, 0.5]), st.floats(-3.0, 3.0)),
                        min_size=n * (n - 1) // 2, max_size=n * (n - 1) // 2))
    bad = None
    if draw(st.integers(0, 5)) == 0:
        bad = [draw(st.integers(0, n - 1)), draw(st.sampled_from([0.0, -0.0, -1.0, -1e-300, -1e6]))]
    return {"n": n, "diag": enc(diag), "rho": enc(rho), "dkind": dk, "bad": enc(bad)}


def _cov(case):
    n = case["n"]
    diag = np.array(dec(case["diag"]), dtype="f8")
    rho = dec(case["rho"]) if "rho" in case else None
    off = dec(case["off"]) if "off" in case else None
    c = np.zeros((n, n))
    k = 0
    for i in range(n):
        c[i, i] = diag[i]
        for j in range(i + 1, n):
            c[i, j] = c[j, i] = off[k] if off is not None else rho[k] * float(np.sqrt(diag[i] * diag[j]))
            k += 1
    bad = dec(case["bad"])
    if bad is not None:
        c[bad[0], bad[0]] = bad[1]
    return c, bad


def check_cov(case, ctx):
    import esutil.stat as es
    c, bad = _cov(case)
    n = case["n"]
    if bad is not None:
        r = sut(es.cov2cor, c)
        require(isinstance(r, Raised) and isinstance(r.exc, ValueError),
                "cov2cor with diagonal entry [%d]=%r must raise ValueError, got %r", bad[0], bad[1], r)
        # life goes on after a rejected call: valid calls whose arithmetic underflows harmlessly still return their
        # defined values (nothing the rejected call set up may stay behind)
        m1 = must(es.wmom, np.array([1.0, 2.0, 4.0]), np.array([1e-200, 1.0, 1e-200]))
        require(float(m1[0]) == 2.0, "after a rejected cov2cor call wmom([1,2,4], w=[1e-200,1,1e-200]) = %r, "
                "sum(w x)/sum(w) = 2", m1[0])
        m2 = must(es.wmom, np.array([1e-170, 2e-170, 3e-170]), np.ones(3))
        require(abs(float(m2[0]) - 2e-170) <= 1e-185, "after a rejected cov2cor call wmom([1,2,3]*1e-170) = %r", m2[0])
        m3 = must(es.sigma_clip, np.array([1e-170, 2e-170, 3e-170, 2e-170]), nsig=5.0, get_indices=True)
        require(len(m3) == 3 and np.asarray(m3[2]).size == 4, "after a rejected cov2cor call sigma_clip of four tiny "
                "values kept %r points", np.asarray(m3[2]).size if len(m3) == 3 else m3)
        return
    cin = c.copy()
    how = case.get("as", "f8")
    if how in ("i8", "i4", "f4"):
        cin = c.astype(how)          # exact: the entries are small integers
    elif how == "list-of-int":
        cin = np.array([[int(v) for v in row] for row in c.tolist()])
    cor = must(es.cov2cor, cin)
    cor = np.asarray(cor)
    require(cor.shape == (n, n), "cov2cor returned shape %r", cor.shape)
    cl = c.astype(LD)
    # single-precision input may be processed in single precision (4 ulp of float32); everything else,
    # integer input included, is held to 1e-12
    rtol = 5e-7 if how == "f4" else 1e-12
    for i in range(n):
        require(abs(float(cor[i, i]) - 1.0) <= rtol, "cor[%d,%d]=%r, expected 1", i, i, cor[i, i])
        for j in range(n):
            exp = cl[i, j] / np.sqrt(cl[i, i] * cl[j, j])
            require(_close(cor[i, j], exp, rtol * abs(float(exp)) + ABS_FLOOR),
                    "cov2cor(%s input): cor[%d,%d]=%r, cov/sqrt(cov_ii cov_jj)=%r", how, i, j, cor[i, j], float(exp))
    back = np.asarray(must(es.cor2cov, cor, np.sqrt(np.diag(c))))
    require(back.shape == (n, n), "cor2cov returned shape %r", back.shape)
    bad_ = np.abs(back - c) > rtol * np.abs(c) + ABS_FLOOR
    require(not bad_.any(), "cor2cov(cov2cor(C), sqrt(diag C)) differs from C at %r: %r vs %r",
            np.argwhere(bad_).tolist()[:3], back[bad_].tolist()[:3], c[bad_].tolist()[:3])
    # cor2cov against its definition on an independent correlation matrix / error vector
    errs = np.sqrt(np.diag(c))[::-1].copy()
    cc = np.asarray(must(es.cor2cov, cor, errs))
    exp = cor.astype(LD) * errs.astype(LD)[:, None] * errs.astype(LD)[None, :]
    bad2 = np.abs(cc - exp) > 1e-12 * np.abs(exp) + ABS_FLOOR
    require(not bad2.any(), "cor2cov(cor, err)[i,j] != cor[i,j]*err[i]*err[j] at %r", np.argwhere(bad2).tolist()[:3])


def classify_cov(case):
    c, bad = _cov(case)
    labs = ["n:%d" % case["n"], "diag:" + case["dkind"], "input:" + case.get("as", "f8")]
    if bad is not None:
        labs.append("nt:rejects-nonpositive-diagonal")
        return labs
    if case["n"] >= 2 and np.unique(np.diag(c)).size > 1:
        labs.append("nt:unequal-diagonal")
    return labs


SUBCHECKS = [
    Subcheck("wmom", wmom_cases, check_wmom, classify_wmom, quick=2500, thorough=120000, journal=False),
    Subcheck("wmedian", wmedian_cases, check_wmedian, classify_wmedian, quick=1500, thorough=80000, journal=False),
    Subcheck("sigma_clip", clip_cases, check_clip, classify_clip, quick=1500, thorough=80000, journal=False),
    Subcheck("interplin", interp_cases, check_interp, classify_interp, quick=1500, thorough=60000, journal=False),
    Subcheck("get_stats", stats_cases, check_get_stats, classify_stats, quick=1200, thorough=50000, journal=False),
    Subcheck("covcor", cov_cases, check_cov, classify_cov, quick=800, thorough=30000, journal=False),
]
