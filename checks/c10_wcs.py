"""C10 -- WCS pixel<->sky (esutil/wcsutil.py).

Oracle: the FITS-paper forward transform written independently in longdouble
(vp/oracle/wcsref.py: CRPIX offset, CD matrix, TPV polynomial in the convention's term order
or SIP polynomial before the CD matrix, closed-form gnomonic deprojection), compared on the
sky with the longdouble great-circle separation of vp/oracle/sphere.py.  The inverse is judged
by the round trip through the *reference* forward transform (sky positions handed to
sky2image are the float64 roundings of reference positions, never esutil output), the
polynomial inverse against an independent least-squares inverse fitted here, the Jacobian
against central differences of the reference, and call-history independence against a fresh
object, bit for bit.
"""
import math

import numpy as np
from hypothesis import strategies as st

from vp.api import Subcheck, must, require
from vp.oracle import sphere, wcsref

PROPERTY = "C10"
RULE = ("headers built from the DECam TPV template of the suite reduced to WCS cards: CD = scale R(theta) "
        "diag(+-1,1) (+ up to 3 % shear), scale 0.05-2 arcsec/px, theta any (incl. 0/90/180/270); CRVAL uniform "
        "on the sphere, within 10^U(-6,0) deg of either pole (and exactly +-90), RA in {0, 359.99999, 1e-5}; "
        "CRPIX inside the image or up to 1e4 px outside; NAXIS 512-4096; projection TAN, TAN+PV (old scamp), "
        "TPV (orders 1-3, PV?_0..2 always present, no radial term), TAN-SIP (order 2-4, AP/BP_ORDER present, "
        "with/without AP/BP cards); coefficient of total order k = eps R^(1-k), |eps| <= 0.02, R = field "
        "radius. Pixels: corners, CRPIX, uniform in the image; scalars and arrays. Histories: 2-8 calls of "
        "image2sky / sky2image(find, distort, xtol) / get_jacobian on one object. Non-trivial: a header with "
        "distortion, or CRVAL within 1 deg of a pole or of RA=0, or CRPIX outside the image; a history with "
        ">= 1 inverse call before a forward call. Distinct = distinct case JSON."
        " Pixel arrays as f8/f4/>f8/>f4/i4; histories may pass xtol= and one history in three uses one fixed array length; arrays returned by earlier calls must keep their values.")
ASSUMPTIONS = [
    "headers are dicts with lower-case keys (the documented dictionary form); LONPOLE/LATPOLE absent "
    "(defaults 180/90)",
    "TPV headers always carry PV?_0, PV?_1, PV?_2 (scamp always writes them; the code treats an absent PV1_1 "
    "as 0, not as the FITS default 1) and never the radial PV?_3 term (unsupported by design)",
    "SIP headers carry at least one A coefficient, A_ORDER and B_ORDER (equal or not), and AP_ORDER/BP_ORDER (the "
    "constructor requires them)",
    "distortion magnitudes are tied to the field radius (each term <= 2 % of R) so that the map is invertible "
    "over the image -- the 'realistic magnitude' of the statement",
    "sky2image(find=True, distort=False) is exercised for history independence only (the docstring does not "
    "say which inverse it denotes; the code ignores distort= when find=True)",
    "scalar and array calls are required to agree to 1e-12 deg / 1e-9 px rather than bit for bit (numpy may "
    "use different elementary-function kernels for scalars and arrays)",
]
TECHNIQUE = ("property-based search (Hypothesis) over generated FITS headers, pixel positions and call "
             "histories; independent longdouble FITS-WCS reference transform (pinned against a 40-digit "
             "vector construction), independent least-squares inverse polynomial, fresh-object differential")
LEVEL_TEXT = ("exploration: every generated header/pixel/history satisfied the FITS-paper reference within the "
              "stated tolerances (1e-9 deg forward, 1e-6 px inverse with root finding, fitted-polynomial accuracy "
              "without); shows the property on the cases explored, not for all headers")

LD = sphere.LD
TOL_SKY = 1e-9          # deg, statement
TOL_PIX = 1e-6          # px, statement
EPS64 = float(np.finfo("f8").eps)
POLAR_FIND_LAT = 89.0   # deg: class label only (the root finder used to stall above this latitude; repaired)

KINDS = ["TAN", "TANPV", "TPV", "SIP"]


# --------------------------------------------------------------------------------------
# header generator
# --------------------------------------------------------------------------------------
_eps = st.one_of(st.floats(-0.02, 0.02), st.sampled_from([0.02, -0.02, 0.01]))


@st.composite
def crvals(draw):
    k = draw(st.sampled_from(["uniform", "uniform", "polar", "polar", "seam", "pole-exact"]))
    if k == "uniform":
        return [360.0 * draw(st.floats(0.0, 1.0, exclude_max=True)),
                math.degrees(math.asin(2.0 * draw(st.floats(0.0, 1.0)) - 1.0))]
    if k == "polar":
        d = 10.0 ** draw(st.floats(-6.0, 0.0))
        return [360.0 * draw(st.floats(0.0, 1.0, exclude_max=True)), draw(st.sampled_from([1.0, -1.0])) * (90.0 - d)]
    if k == "pole-exact":
        return [draw(st.sampled_from([0.0, 123.456, 359.99999])), draw(st.sampled_from([90.0, -90.0]))]
    return [draw(st.sampled_from([0.0, 359.99999, 1e-5])),
            math.degrees(math.asin(2.0 * draw(st.floats(0.0, 1.0)) - 1.0))]


@st.composite
def headers(draw, kinds=KINDS):
    kind = draw(st.sampled_from(kinds))
    nx = draw(st.one_of(st.sampled_from([512, 1024, 2048, 4096]), st.integers(512, 4096)))
    ny = draw(st.one_of(st.sampled_from([512, 1024, 2048, 4096]), st.integers(512, 4096)))
    scale = draw(st.one_of(st.floats(0.05, 2.0), st.sampled_from([0.05, 0.263, 1.0, 2.0]))) / 3600.0
    theta = math.radians(draw(st.one_of(st.floats(0.0, 360.0), st.sampled_from([0.0, 90.0, 180.0, 270.0, 45.0]))))
    flip = draw(st.sampled_from([-1.0, -1.0, 1.0]))
    shear = draw(st.one_of(st.just(0.0), st.floats(-0.03, 0.03)))
    c, s = math.cos(theta), math.sin(theta)
    # scale * R(theta) * [[flip, shear],[0, 1]]
    cd = [[scale * c * flip, scale * (c * shear - s)], [scale * s * flip, scale * (s * shear + c)]]
    inside = draw(st.booleans())
    cx = draw(st.floats(1.0, float(nx)))
    cy = draw(st.floats(1.0, float(ny)))
    if not inside:
        cx += draw(st.sampled_from([-1.0, 1.0])) * (nx + draw(st.floats(0.0, 1.0e4)))
        cy += draw(st.sampled_from([-1.0, 0.0, 1.0])) * (ny + draw(st.floats(0.0, 1.0e4)))
    lon0, lat0 = draw(crvals())
    suffix = {"TAN": "TAN", "TANPV": "TAN", "TPV": "TPV", "SIP": "TAN-SIP"}[kind]
    h = {"naxis": 2, "naxis1": nx, "naxis2": ny,
         "ctype1": "RA---" + suffix, "ctype2": "DEC--" + suffix, "cunit1": "deg", "cunit2": "deg",
         "crpix1": cx, "crpix2": cy, "crval1": lon0, "crval2": lat0,
         "cd1_1": cd[0][0], "cd1_2": cd[0][1], "cd2_1": cd[1][0], "cd2_2": cd[1][1]}
    if draw(st.integers(0, 9)) == 0:
        # a tile-compressed (fpack) image: the image size is in ZNAXIS1/2, NAXIS1/2 are those of the tile table
        h["znaxis1"], h["znaxis2"] = nx, ny
        h["naxis1"], h["naxis2"] = 8, draw(st.integers(16, 300))
        h["zimage"] = True
    rpix = max(math.hypot(px - cx, py - cy) for px in (1.0, float(nx)) for py in (1.0, float(ny)))
    if kind in ("TANPV", "TPV"):
        rdeg = rpix * scale
        order = draw(st.sampled_from([1, 2, 3, 3]))
        const = draw(st.booleans())
        for ax in (1, 2):
            h["pv%d_0" % ax] = draw(_eps) * rdeg if const else 0.0
            h["pv%d_1" % ax] = 1.0 + draw(_eps)
            h["pv%d_2" % ax] = draw(_eps)
            if draw(st.booleans()):
                h["pv%d_3" % ax] = 0.0          # scamp writes the (unused) radial card as zero
            for k, o in ((4, 2), (5, 2), (6, 2), (7, 3), (8, 3), (9, 3), (10, 3)):
                if o <= order and draw(st.sampled_from([True, True, True, False])):
                    h["pv%d_%d" % (ax, k)] = draw(_eps) * rdeg ** (1 - o)
    elif kind == "SIP":
        order = draw(st.sampled_from([2, 3, 4]))
        # the two axes may be fitted to different orders (one header in three)
        border = draw(st.sampled_from([order, order, 2, 3, 4]))
        h["a_order"] = order
        h["b_order"] = border
        first = True
        empty = draw(st.sampled_from([False] * 7 + [True]))     # A/B_ORDER cards without any coefficient
        for pre in ("a", "b") if not empty else ():
            po = order if pre == "a" else border
            for p in range(po + 1):
                for q in range(po + 1 - p):
                    if p + q < 2:
                        continue
                    if (first and pre == "a") or draw(st.sampled_from([True, True, True, False])):
                        h["%s_%d_%d" % (pre, p, q)] = draw(_eps) * rpix ** (1 - p - q)
                        first = False
        inv = draw(st.sampled_from(["order-only", "order+1", "cards"]))
        io = order + (1 if inv == "order+1" else 0)
        h["ap_order"] = io
        h["bp_order"] = io
        if inv == "cards":
            for pre in ("ap", "bp"):
                for p, q in ((1, 0), (0, 1), (2, 0), (1, 1), (0, 2)):
                    h["%s_%d_%d" % (pre, p, q)] = draw(_eps) * rpix ** (1 - p - q) * 0.1
    return h


def image_dims(h):
    """Image size in pixels: ZNAXIS1/2 of a tile-compressed image when present (NAXIS1/2 then describe the
    binary table that holds the tiles), else NAXIS1/2."""
    if "znaxis1" in h:
        return float(h["znaxis1"]), float(h["znaxis2"])
    return float(h["naxis1"]), float(h["naxis2"])


@st.composite
def pixels(draw, h, n, crpix_outside=False):
    """Pixel positions in the image [1,NAXIS1] x [1,NAXIS2]; CRPIX itself is included when it lies in
    the image (or, for the forward transform, wherever it is: crpix_outside=True)."""
    nx, ny = image_dims(h)
    inside = 1.0 <= h["crpix1"] <= nx and 1.0 <= h["crpix2"] <= ny
    out = []
    for _ in range(n):
        k = draw(st.sampled_from(["corner", "crpix", "uniform", "uniform", "uniform", "int"]))
        if k == "crpix" and not (inside or crpix_outside):
            k = "uniform"
        if k == "corner":
            out.append([draw(st.sampled_from([1.0, nx])), draw(st.sampled_from([1.0, ny]))])
        elif k == "crpix":
            out.append([h["crpix1"], h["crpix2"]])
        elif k == "int":
            out.append([float(draw(st.integers(1, int(nx)))), float(draw(st.integers(1, int(ny))))])
        else:
            out.append([draw(st.floats(1.0, nx)), draw(st.floats(1.0, ny))])
    return out


def classify_header(h):
    labs = []
    proj = wcsref.projection(h)
    if wcsref.has_pv(h):
        kind = "TANPV" if proj == "-TAN" else "TPV"
    elif wcsref.has_sip(h):
        kind = "SIP"
    else:
        kind = "TAN"
    labs.append("kind:" + kind)
    nt = []
    if wcsref.distorted(h):
        nt.append("nt:distorted")
        if kind == "SIP":
            labs.append("sip-order:%d" % h["a_order"])
            labs.append("sip-b-order:%s" % ("same" if h["b_order"] == h["a_order"] else "higher" if h["b_order"] > h["a_order"]
                                            else "lower"))
            labs.append("sip-inverse-cards:%s" % ("ap_1_0" in h))
        else:
            o = 3 if any(("pv1_%d" % k in h or "pv2_%d" % k in h) for k in (7, 8, 9, 10)) else \
                2 if any(("pv1_%d" % k in h or "pv2_%d" % k in h) for k in (4, 5, 6)) else 1
            labs.append("pv-order:%d" % o)
            labs.append("pv-const:%s" % (h["pv1_0"] != 0.0 or h["pv2_0"] != 0.0))
    if abs(h["crval2"]) > 89.0:
        nt.append("nt:polar")
        labs.append("pole-exact" if abs(h["crval2"]) == 90.0 else "pole-dist:1e%d" %
                    int(math.floor(math.log10(90.0 - abs(h["crval2"])))))
    if min(h["crval1"], 360.0 - h["crval1"]) < 1.0:
        nt.append("nt:seam")
    if not (1.0 <= h["crpix1"] <= image_dims(h)[0] and 1.0 <= h["crpix2"] <= image_dims(h)[1]):
        nt.append("nt:crpix-outside")
    det = h["cd1_1"] * h["cd2_2"] - h["cd1_2"] * h["cd2_1"]
    labs.append("parity:%s" % ("+" if det > 0 else "-"))
    if "znaxis1" in h:
        labs.append("tile-compressed(ZNAXIS)")
    return labs + nt


def make(h):
    import esutil.wcsutil
    return must(esutil.wcsutil.WCS, dict(h))


def ref_sky64(h, pts, distort=True):
    """Reference positions (longdouble) and their float64 roundings."""
    x = [p[0] for p in pts]
    y = [p[1] for p in pts]
    lon, lat = wcsref.image2sky(h, x, y, distort)
    lon64 = np.asarray(lon, dtype="f8")
    lon64 = np.where(lon64 >= 360.0, 0.0, lon64)
    return lon, lat, lon64, np.asarray(lat, dtype="f8")


# --------------------------------------------------------------------------------------
# sub-check: forward transform
# --------------------------------------------------------------------------------------
@st.composite
def forward_cases(draw):
    h = draw(headers())
    return {"header": h, "pts": draw(pixels(h, draw(st.sampled_from([1, 4, 12])), crpix_outside=True)),
            "distort": draw(st.sampled_from([True, True, False])),
            "pixtype": draw(st.sampled_from(["f8", "f8", "f8", "f4", ">f8", ">f4", "i4", "list"]))}


def _check_sky(what, got_lon, got_lat, ref_lon, ref_lat, pts, tol=TOL_SKY):
    got_lon = np.atleast_1d(np.asarray(got_lon, dtype="f8"))
    got_lat = np.atleast_1d(np.asarray(got_lat, dtype="f8"))
    require(got_lon.shape == (len(pts),) and got_lat.shape == (len(pts),),
            "%s: result shape %r for %d points", what, got_lon.shape, len(pts))
    require(bool(np.all(np.isfinite(got_lon)) and np.all(np.isfinite(got_lat))), "%s: non-finite result %r %r",
            what, got_lon.tolist(), got_lat.tolist())
    require(bool(np.all((got_lon >= 0.0) & (got_lon < 360.0))), "%s: longitude outside [0,360): %r", what,
            got_lon.tolist())
    require(bool(np.all(np.abs(got_lat) <= 90.0)), "%s: latitude outside [-90,90]: %r", what, got_lat.tolist())
    d = np.asarray(sphere.sep(got_lon, got_lat, ref_lon, ref_lat), dtype="f8")
    i = int(np.argmax(d))
    require(d[i] <= tol, "%s at pixel %r: (%.15g, %.15g), FITS reference (%.15g, %.15g): %.3g deg apart on the "
            "sky (> %g)", what, pts[i], got_lon[i], got_lat[i], float(np.atleast_1d(ref_lon)[i]),
            float(np.atleast_1d(ref_lat)[i]), d[i], tol)
    return float(d[i])


def check_forward(case, ctx):
    h, pts, distort = case["header"], case["pts"], case["distort"]
    w = make(h)
    pixtype = case.get("pixtype", "f8")
    if pixtype in ("f4", ">f4"):
        pts = [[float(np.float32(p[0])), float(np.float32(p[1]))] for p in pts]      # exactly representable
    elif pixtype == "i4":
        pts = [[float(round(p[0])), float(round(p[1]))] for p in pts]
    rlon, rlat, _, _ = ref_sky64(h, pts, distort)
    x = np.array([p[0] for p in pts])
    y = np.array([p[1] for p in pts])
    kw = {} if distort else {"distort": False}
    if pixtype == "list":
        xin, yin = x.tolist(), y.tolist()
    else:
        xin, yin = x.astype(pixtype), y.astype(pixtype)
    if pixtype == "list":
        # lists are not arrays: the documented inputs are scalars or arrays; hand over arrays built from them
        xin, yin = np.array(xin), np.array(yin)
    lon, lat = must(w.image2sky, xin, yin, **kw)
    require(isinstance(lon, np.ndarray) and lon.shape == x.shape, "image2sky(array) returned %r", type(lon))
    _check_sky("image2sky(distort=%s)" % distort, lon, lat, rlon, rlat, pts)
    # scalar calls: scalars out, same values
    for i, (px, py) in enumerate(pts[:4]):
        slon, slat = must(w.image2sky, px, py, **kw)
        require(np.ndim(slon) == 0 and np.ndim(slat) == 0, "image2sky(scalar) returned non-scalars %r", slon)
        _check_sky("image2sky(scalar, distort=%s)" % distort, slon, slat, rlon[i:i + 1], rlat[i:i + 1],
                   pts[i:i + 1])
        d = float(sphere.sep(float(slon), float(slat), float(lon[i]), float(lat[i])))
        require(d <= 1e-12, "image2sky scalar and array results differ by %.3g deg at pixel %r", d, pts[i])
    # the reference pixel maps to the reference sky position when there is no constant term
    noconst = (not distort) or not wcsref.has_pv(h) or (h["pv1_0"] == 0.0 and h["pv2_0"] == 0.0)
    if noconst:
        clon, clat = must(w.image2sky, h["crpix1"], h["crpix2"], **kw)
        require(0.0 <= clon < 360.0, "image2sky(CRPIX) longitude %r outside [0,360)", clon)
        d = float(sphere.sep(float(clon), float(clat), h["crval1"], h["crval2"]))
        require(d <= TOL_SKY, "image2sky(CRPIX) = (%.15g, %.15g) is %.3g deg from CRVAL (%.15g, %.15g)",
                clon, clat, d, h["crval1"], h["crval2"])


def classify_forward(case):
    labs = classify_header(case["header"])
    labs.append("distort:%s" % case["distort"])
    labs.append("pixels:" + case.get("pixtype", "f8"))
    return labs


# --------------------------------------------------------------------------------------
# sub-check: inverse with root finding (and the exact inverse of distortion-free headers)
# --------------------------------------------------------------------------------------
@st.composite
def invfind_cases(draw):
    h = draw(headers())
    return {"header": h, "pts": draw(pixels(h, draw(st.sampled_from([1, 3, 6])))),
            "scalar": draw(st.booleans())}


def polar_find_class(h, lats):
    """Input class of the repaired defect find-polar: a header with distortion and a sky
    position (or reference point) within 90-POLAR_FIND_LAT degrees of a pole."""
    return wcsref.distorted(h) and (abs(h["crval2"]) > POLAR_FIND_LAT or
                                    float(np.max(np.abs(lats))) > POLAR_FIND_LAT)


def check_invfind(case, ctx):
    h, pts = case["header"], case["pts"]
    w = make(h)
    _, _, lon, lat = ref_sky64(h, pts, True)
    px = np.array([p[0] for p in pts])
    py = np.array([p[1] for p in pts])
    import warnings
    with warnings.catch_warnings():
        warnings.simplefilter("ignore", RuntimeWarning)      # fsolve's "not making good progress"
        if case["scalar"]:
            res = [must(w.sky2image, float(a), float(b)) for a, b in zip(lon, lat)]
            require(all(np.ndim(r[0]) == 0 and np.ndim(r[1]) == 0 for r in res),
                    "sky2image(scalar) returned non-scalars")
            x = np.array([float(r[0]) for r in res])
            y = np.array([float(r[1]) for r in res])
        else:
            x, y = must(w.sky2image, lon, lat)
            require(isinstance(x, np.ndarray) and x.shape == lon.shape, "sky2image(array) returned %r", type(x))
    require(bool(np.all(np.isfinite(x)) and np.all(np.isfinite(y))), "sky2image: non-finite result")
    d = np.hypot(x - px, y - py)
    i = int(np.argmax(d))
    ctx.count("find:max-residual>1e-7px" if d[i] > 1e-7 else "find:max-residual<=1e-7px")
    if polar_find_class(h, lat):
        ctx.count("find:polar-class(distorted, |dec|>89)")
    require(d[i] <= TOL_PIX, "sky2image(find=True) of the sky position of pixel %r returns (%.9f, %.9f): %.3g px "
            "off (> %g); CRVAL2 = %r, dec = %.6f", pts[i], x[i], y[i], d[i], TOL_PIX, h["crval2"], lat[i])


def classify_inv(case):
    labs = classify_header(case["header"])
    if "scalar" in case:
        labs.append("scalar" if case["scalar"] else "array")
    return labs


# --------------------------------------------------------------------------------------
# sub-check: inverse without root finding (fitted polynomial) and without distortion
# --------------------------------------------------------------------------------------
@st.composite
def invpoly_cases(draw):
    h = draw(headers())
    return {"header": h, "pts": draw(pixels(h, draw(st.sampled_from([4, 12])))),
            "distort": draw(st.sampled_from([True, True, False]))}


def _monomials(u, v, order, constant):
    cols = []
    for o in range(0 if constant else 1, order + 1):
        for j in range(o + 1):
            cols.append(u ** (o - j) * v ** j)
    return np.stack(cols, axis=1)


def independent_inverse_residual(h, pts, ngrid=36):
    """Worst residual (pixels) over a grid on the image and the given pixels of a
    least-squares inverse polynomial of the documented order, fitted here."""
    nx, ny = image_dims(h)
    gx, gy = np.meshgrid(np.linspace(1.0, nx, ngrid), np.linspace(1.0, ny, ngrid))
    x = np.concatenate([gx.ravel(), [p[0] for p in pts]])
    y = np.concatenate([gy.ravel(), [p[1] for p in pts]])
    nfit = gx.size
    cd = np.array([[h["cd1_1"], h["cd1_2"]], [h["cd2_1"], h["cd2_2"]]])
    cdinv = np.linalg.inv(cd)
    if wcsref.has_pv(h):
        # (xi', eta') -> (xi, eta), order 3 + 1, with constant term
        xi0, eta0 = wcsref.intermediate(h, x, y, distort=False)
        xi1, eta1 = wcsref.intermediate(h, x, y, distort=True)
        src = np.stack([np.asarray(xi1, "f8"), np.asarray(eta1, "f8")], axis=1)
        dst = np.stack([np.asarray(xi0, "f8"), np.asarray(eta0, "f8")], axis=1)
        order, constant = 4, True
    else:
        # (u', v') -> (u - u', v - v'), order A_ORDER + 1, no constant term
        u = x - h["crpix1"]
        v = y - h["crpix2"]
        u1, v1 = wcsref.sip(h, sphere.ld(u), sphere.ld(v))
        src = np.stack([np.asarray(u1, "f8"), np.asarray(v1, "f8")], axis=1)
        dst = np.stack([u, v], axis=1) - src
        order, constant = int(h["a_order"]) + 1, False
    sc = np.max(np.abs(src[:nfit]), axis=0)
    sc[sc == 0] = 1.0
    A = _monomials(src[:, 0] / sc[0], src[:, 1] / sc[1], order, constant)
    coef, _, _, _ = np.linalg.lstsq(A[:nfit], dst[:nfit], rcond=None)
    res = A @ coef - dst
    if wcsref.has_pv(h):
        res = res @ cdinv.T
    # conditioning of the documented fit: monomials of the *unshifted* plane coordinates (that is the
    # documented design matrix), columns equilibrated.  It grows like (offset/half-width)^order when
    # CRPIX lies far outside the image.
    An = _monomials(src[:nfit, 0], src[:nfit, 1], order, constant)
    An = An / np.linalg.norm(An, axis=0)
    kappa = float(np.linalg.cond(An))
    if wcsref.has_pv(h):
        rpix = float(np.max(np.hypot(*(dst[:nfit] @ cdinv.T).T)))
    else:
        rpix = float(np.max(np.hypot(x[:nfit] - h["crpix1"], y[:nfit] - h["crpix2"])))
    return float(np.max(np.hypot(res[:, 0], res[:, 1]))), kappa, rpix


def check_invpoly(case, ctx):
    h, pts, distort = case["header"], case["pts"], case["distort"]
    w = make(h)
    _, _, lon, lat = ref_sky64(h, pts, distort)
    px = np.array([p[0] for p in pts])
    py = np.array([p[1] for p in pts])
    kw = {"find": False}
    if not distort:
        kw["distort"] = False
    x, y = must(w.sky2image, lon, lat, **kw)
    require(bool(np.all(np.isfinite(x)) and np.all(np.isfinite(y))), "sky2image(find=False): non-finite result")
    d = np.hypot(x - px, y - py)
    i = int(np.argmax(d))
    if distort and wcsref.distorted(h):
        r, kappa, rpix = independent_inverse_residual(h, pts)
        # "fitted-polynomial accuracy": approximation error of a polynomial of the documented order (r, from
        # the independent fit) plus the float64 error any backward-stable solution of the documented
        # least-squares problem carries (see DESIGN.md section 10)
        # the documented solution forms the normal equations (A^T A), whose error bound is eps * cond(A)^2
        cond_term = 16.0 * EPS64 * kappa * kappa * rpix
        tol = 5.0 * r + TOL_PIX + cond_term
        ctx.count("poly:conditioning-term>1e-6px" if cond_term > TOL_PIX else "poly:conditioning-term<=1e-6px")
        if cond_term > 1e-2:
            ctx.count("poly:conditioning-term>1e-2px")
        ctx.count("poly:ratio<=1" if d[i] <= r + TOL_PIX else "poly:ratio<=5" if d[i] <= tol else "poly:ratio>5")
        require(d[i] <= tol, "sky2image(find=False) of the sky position of pixel %r is %.3g px off; an independent "
                "least-squares inverse polynomial of the same order leaves at most %.3g px over the image "
                "(allowed 5x + %g + %.3g px for the conditioning %.3g of the documented fit)", pts[i], d[i], r,
                TOL_PIX, cond_term, kappa)
    else:
        require(d[i] <= TOL_PIX, "sky2image(find=False%s) without distortion: pixel %r comes back %.3g px off "
                "(> %g)", "" if distort else ", distort=False", pts[i], d[i], TOL_PIX)
    # scalar call agrees with the array call
    sx, sy = must(w.sky2image, float(lon[0]), float(lat[0]), **kw)
    require(np.ndim(sx) == 0 and np.ndim(sy) == 0, "sky2image(scalar, find=False) returned non-scalars")
    require(abs(float(sx) - x[0]) <= 1e-9 and abs(float(sy) - y[0]) <= 1e-9,
            "sky2image(find=False) scalar (%r, %r) and array (%r, %r) results differ", sx, sy, x[0], y[0])


def classify_invpoly(case):
    return classify_header(case["header"]) + ["distort:%s" % case["distort"]]


# --------------------------------------------------------------------------------------
# sub-check: Jacobian
# --------------------------------------------------------------------------------------
@st.composite
def jacobian_cases(draw):
    h = draw(headers())
    return {"header": h, "pts": draw(pixels(h, draw(st.sampled_from([1, 4])))),
            "distort": draw(st.sampled_from([True, True, False])),
            "step": draw(st.sampled_from([None, None, 0.5, 2.0])), "scalar": draw(st.booleans())}


def _wrap(d):
    d = np.where(d < -180, d + 360, d)
    return np.where(d > 180, d - 360, d)


def check_jacobian(case, ctx):
    h, pts, distort = case["header"], case["pts"], case["distort"]
    step = case["step"]
    w = make(h)
    x = np.array([p[0] for p in pts])
    y = np.array([p[1] for p in pts])
    kw = {}
    if not distort:
        kw["distort"] = False
    if step is not None:
        kw["step"] = step
    s = 1.0 if step is None else step
    if case["scalar"]:
        got = [must(w.get_jacobian, float(a), float(b), **kw) for a, b in zip(x, y)]
        require(all(len(g) == 4 for g in got), "get_jacobian must return four elements")
        J = np.array([[float(v) for v in g] for g in got]).T
    else:
        got = must(w.get_jacobian, x, y, **kw)
        require(len(got) == 4 and all(np.shape(g) == x.shape for g in got), "get_jacobian(array) shapes")
        J = np.array([np.asarray(g, "f8") for g in got])
    _, lat0 = wcsref.image2sky(h, x, y, distort)
    lxp, dxp = wcsref.image2sky(h, sphere.ld(x) + LD(s), y, distort)
    lxm, dxm = wcsref.image2sky(h, sphere.ld(x) - LD(s), y, distort)
    lyp, dyp = wcsref.image2sky(h, x, sphere.ld(y) + LD(s), distort)
    lym, dym = wcsref.image2sky(h, x, sphere.ld(y) - LD(s), distort)
    fac = LD(3600) / (2 * LD(s))
    cosd = -np.cos(lat0 * sphere.D2R)
    rawx, rawy = lxp - lxm, lyp - lym
    R = np.array([np.asarray(fac * _wrap(rawx) * cosd, "f8"), np.asarray(fac * _wrap(rawy) * cosd, "f8"),
                  np.asarray(fac * (dxp - dxm), "f8"), np.asarray(fac * (dyp - dym), "f8")])
    amb = [np.abs(np.abs(np.asarray(rawx, "f8")) - 180.0) < 1e-6, np.abs(np.abs(np.asarray(rawy, "f8")) - 180.0) < 1e-6]
    # a stencil point that falls (to 1e-9 deg) on a celestial pole has no defined right ascension: the
    # finite difference in RA through it is arbitrary for the reference and for esutil alike
    polx = (np.maximum(np.abs(np.asarray(dxp, "f8")), np.abs(np.asarray(dxm, "f8"))) > 90.0 - 1e-9)
    poly = (np.maximum(np.abs(np.asarray(dyp, "f8")), np.abs(np.asarray(dym, "f8"))) > 90.0 - 1e-9)
    amb = [amb[0] | polx, amb[1] | poly]
    for k in range(x.size):
        # (at a pole all four central differences vanish: floor the scale with the pixel scale)
        pixscale = 3600.0 * math.sqrt(abs(h["cd1_1"] * h["cd2_2"] - h["cd1_2"] * h["cd2_1"]))
        scale = max(float(np.max(np.abs(R[:, k]))), pixscale)
        for e, name in enumerate(("dra_dx", "dra_dy", "ddec_dx", "ddec_dy")):
            if e < 2 and amb[e][k]:
                ctx.count("jacobian:ra-difference-at-180-or-through-a-pole-skipped")
                continue
            require(abs(J[e, k] - R[e, k]) <= 1e-6 * scale,
                    "get_jacobian %s at pixel %r = %.12g, central difference of the FITS reference %.12g "
                    "(differs by more than 1e-6 of the largest element %.6g)", name, pts[k], J[e, k], R[e, k],
                    scale)


def classify_jac(case):
    return classify_header(case["header"]) + ["distort:%s" % case["distort"], "step:%s" % case["step"]]


# --------------------------------------------------------------------------------------
# sub-check: call-history independence
# --------------------------------------------------------------------------------------
OPS = ["image2sky", "image2sky", "sky2image", "sky2image", "sky2image", "get_jacobian"]


@st.composite
def history_cases(draw):
    h = draw(headers())
    nops = draw(st.integers(2, 8))
    ops = []
    # one history in three works on arrays of one fixed length throughout (a catalogue processed in equal
    # blocks): buffers an object might keep between calls then have the same shape in every call
    fixed = draw(st.sampled_from([None, None, 1, 2, 3]))
    for _ in range(nops):
        name = draw(st.sampled_from(OPS))
        op = {"op": name, "pts": draw(pixels(h, fixed or draw(st.sampled_from([1, 1, 2, 3])))),
              "scalar": False if fixed else draw(st.booleans()),
              "distort": draw(st.sampled_from([True, True, False]))}
        if name == "sky2image":
            op["find"] = draw(st.booleans())
            # the documented root-finding tolerance of one call must not leak into later calls
            op["xtol"] = draw(st.sampled_from([None, None, None, 1e-2, 1e-4, 1e-12])) if op["find"] else None
        ops.append(op)
    return {"header": h, "ops": ops}


def _apply(w, h, op, kept=None):
    pts = op["pts"]
    x = np.array([p[0] for p in pts])
    y = np.array([p[1] for p in pts])
    kw = {} if op["distort"] else {"distort": False}
    if op["op"] == "sky2image":
        _, _, a, b = ref_sky64(h, pts, True)
        kw["find"] = op["find"]
        if op.get("xtol") is not None:
            kw["xtol"] = op["xtol"]
        fn = w.sky2image
    else:
        a, b = x, y
        fn = w.image2sky if op["op"] == "image2sky" else w.get_jacobian
    if op["scalar"]:
        out = [must(fn, float(u), float(v), **kw) for u, v in zip(a, b)]
        return [[float(t) for t in r] for r in out]
    out = must(fn, a.copy(), b.copy(), **kw)
    if kept is not None:
        # the caller keeps what he got: later calls on the object must not change it
        kept.extend((t, np.array(t, copy=True)) for t in out if isinstance(t, np.ndarray))
    return [np.asarray(t, "f8").tolist() for t in out]


def check_history(case, ctx):
    import warnings
    h = case["header"]
    w = make(h)
    with warnings.catch_warnings():
        warnings.simplefilter("ignore", RuntimeWarning)
        kept = []
        for n, op in enumerate(case["ops"]):
            got = _apply(w, h, op, kept)
            exp = _apply(make(h), h, op)
            for obj, val in kept:
                require(np.array_equal(obj, val, equal_nan=True), "an array returned by an earlier call on the object was "
                        "changed by call %d (%s): it held %r, now %r", n, op["op"], val.tolist()[:6], obj.tolist()[:6])
            require(got == exp or (np.asarray(got) == np.asarray(exp)).all(),
                    "call %d (%s %s) on an object that already served %d calls returns %r, a fresh object "
                    "returns %r", n, op["op"], {k: v for k, v in op.items() if k not in ("op", "pts")}, n, got,
                    exp)


def classify_history(case):
    labs = classify_header(case["header"])
    seen_inv = False
    inv_then_fwd = False
    for op in case["ops"]:
        if op["op"] == "sky2image":
            seen_inv = True
            labs.append("inv:find=%s,distort=%s" % (op["find"], op["distort"]))
            if op.get("xtol") is not None:
                labs.append("inv:explicit-xtol")
        elif seen_inv:
            inv_then_fwd = True
    if inv_then_fwd:
        labs.append("nt:inverse-before-forward")
    labs.append("nops:%d" % len(case["ops"]))
    return labs


def selftest():
    sphere.selftest()
    wcsref.selftest()


SUBCHECKS = [
    Subcheck("forward", forward_cases, check_forward, classify_forward, quick=1800, thorough=40000,
             journal=False),
    Subcheck("inverse_find", invfind_cases, check_invfind, classify_inv, quick=900, thorough=20000,
             journal=False),
    Subcheck("inverse_poly", invpoly_cases, check_invpoly, classify_invpoly, quick=900, thorough=20000,
             journal=False),
    Subcheck("jacobian", jacobian_cases, check_jacobian, classify_jac, quick=900, thorough=20000,
             journal=False),
    Subcheck("history", history_cases, check_history, classify_history, quick=900, thorough=15000,
             journal=False),
]
