"""C05 -- histogram counts and reverse indices partition the binned data (both engines).

Oracle: vp/oracle/histmodel.py (brute force, statement evaluated literally in float64; a datum
whose quotient is an inexact near-integer may sit in either adjacent bin).  Every case is run
through the compiled engine and through the pure-Python engine (module switch
esutil.stat.util.have_chist); both results are judged by the oracle and must be identical arrays.
"""
import numpy as np
from hypothesis import strategies as st

from vp.api import HarnessError, Raised, Subcheck, must, require, sut
from vp.case import dec, enc
from vp.oracle import histmodel as hm

PROPERTY = "C05"
SANITIZE = True          # thorough tier: reduced pass against an ASan/UBSan build of _chist
RULE = ("data of size 1..300 from six families (floats over 12 decades with both signs; draws from a pool "
        "of <=6 values = heavy ties; integer-valued floats; integer dtypes i2/i4/i8/u1; values on "
        "base+k*step grids for exactly representable steps 0.25/0.5/1/2/3 and inexact ones 0.1, 1/3, "
        "optionally nudged by one ulp; constant arrays and single elements) x (binsize>0 | nbin>=1, "
        "derived bin count <= 1e5) x min/max each absent / at a datum / strictly inside the data range / "
        "on a grid edge / outside / beyond all data (documented ValueError) x entry point "
        "(histogram(rev=True) | Binner.dohist(rev=True)) x input container (ndarray, list, strided view, negative-stride "
        "view, field of a record array, byte-swapped array). Every case "
        "runs the C engine and the Python engine. Non-trivial: >=2 non-empty bins and (a tie among "
        "counted data, or a datum exactly on a bin edge, or a limit that excludes data, or an empty "
        "interior bin). Distinct = distinct case JSON."
        " Data are handed over as ndarray, list, strided view, negative-stride view, record-array field or byte-swapped array; a Binner is histogrammed again with a limit dropped / other binning and compared with a fresh Binner; the judged dohist(rev=True) call is preceded (2 in 5) by a counts-only dohist on the same Binner.")
ASSUMPTIONS = [
    "data are finite, |x| <= 1e12 (integers < 2**53): the conversion to float64 done by Binner is exact or "
    "the float64 image is taken as 'the data'",
    "nbin= is only generated when the resulting bin size (max-min)/nbin is > 0 (constant data with nbin= "
    "gives bin size 0, outside 'binsize > 0': the bin index 0/0 is undefined)",
    "derived number of bins capped at 1e5 by construction (memory/time), most cases <= 60 bins",
    "an inexact quotient (x-min)/binsize within 2 ulp of an integer k may be binned as k-1 or k; exact "
    "quotients are held strictly (DESIGN.md C05/O)",
    "entries of rev beyond rev[nbin] are not constrained by the oracle (but must be identical between engines)",
]
TECHNIQUE = ("property-based testing (Hypothesis) against a brute-force bin model with per-datum admissible-bin "
             "sets, reverse-index partition invariants, and a C-vs-Python engine differential")
LEVEL_TEXT = ("Generated-input search against an independent brute-force model; shows the property on every "
              "generated case for both engines, never the absence of violations.")

NICE_STEPS = [0.25, 0.5, 1.0, 2.0, 3.0, 0.1, 1.0 / 3.0]
GRID_BASES = [0.0, -3.0, 0.5, 10.1, -7.3, 100.0, 1e6, -0.1]
DTYPES_INT = ["i2", "i4", "i8", "u1"]


def _f(v):
    return float(v)


@st.composite
def _data(draw, family):
    nmax = draw(st.sampled_from([1, 2, 3, 5, 10, 10, 30, 30, 100, 300]))
    nmin = min(nmax, draw(st.sampled_from([1, 2, 4, 8])))
    info = {}
    if family == "decades":
        mag = st.floats(-3.0, 12.0).map(lambda e: 10.0 ** e)
        el = st.one_of(st.builds(lambda s, m: s * m, st.sampled_from([1.0, -1.0]), mag),
                       st.floats(-1e3, 1e3), st.just(0.0), st.just(-0.0))
        vals = draw(st.lists(el, min_size=nmin, max_size=nmax))
        dt = draw(st.sampled_from(["f8", "f8", "f4"]))
    elif family == "pool":
        pool = draw(st.lists(st.one_of(st.floats(-100, 100), st.integers(-5, 5).map(float)),
                             min_size=1, max_size=6))
        vals = draw(st.lists(st.sampled_from(pool), min_size=nmin, max_size=nmax))
        dt = "f8"
    elif family == "intfloat":
        lo = draw(st.integers(-1000, 1000))
        w = draw(st.sampled_from([1, 3, 10, 40, 1000]))
        vals = [float(v) for v in draw(st.lists(st.integers(lo, lo + w), min_size=nmin, max_size=nmax))]
        dt = draw(st.sampled_from(["f8", "f4"]))
    elif family == "ints":
        dt = draw(st.sampled_from(DTYPES_INT))
        ii = np.iinfo(dt)
        lo = draw(st.integers(max(int(ii.min), -2 ** 40), min(int(ii.max), 2 ** 40) - 1))
        w = draw(st.sampled_from([1, 3, 10, 40, 250]))
        hi = min(lo + w, int(ii.max))
        vals = draw(st.lists(st.integers(lo, hi), min_size=nmin, max_size=nmax))
    elif family == "grid":
        base = draw(st.sampled_from(GRID_BASES))
        step = draw(st.sampled_from(NICE_STEPS))
        kmax = draw(st.sampled_from([2, 5, 12, 40]))
        ks = draw(st.lists(st.integers(-2, kmax), min_size=nmin, max_size=nmax))
        vals = [base + k * step for k in ks]
        if draw(st.integers(0, 3)) == 0:
            nud = draw(st.lists(st.sampled_from([0, 0, 1, -1]), min_size=len(vals), max_size=len(vals)))
            vals = [v if d == 0 else float(np.nextafter(v, np.inf if d > 0 else -np.inf))
                    for v, d in zip(vals, nud)]
        info = {"base": base, "step": step}
        dt = "f8"
    elif family == "const":
        v = draw(st.one_of(st.floats(-1e6, 1e6), st.integers(-5, 5).map(float)))
        vals = [v] * draw(st.integers(nmin, nmax))
        dt = "f8"
    else:
        raise AssertionError(family)
    return vals, dt, info


def _limit(draw, which, x64, info):
    """One limit by construction.  which = 'min' | 'max'."""
    dlo, dhi = float(x64.min()), float(x64.max())
    mode = draw(st.sampled_from(["none", "none", "none", "data", "inside", "outside", "edge", "beyond"]))
    if mode == "beyond" and draw(st.integers(0, 3)) != 0:
        mode = "none"                       # keep the rejected class rare
    if mode == "none":
        return None, mode
    if mode == "data":
        return float(x64[draw(st.integers(0, x64.size - 1))]), mode
    if mode == "inside":
        t = draw(st.floats(0.0, 1.0))
        return dlo + t * (dhi - dlo), mode
    if mode == "edge":
        if info:
            k = draw(st.integers(-3, 42))
            return info["base"] + k * info["step"], mode
        return float(np.floor(dlo)) if which == "min" else float(np.ceil(dhi)), mode
    d = draw(st.sampled_from([0.5, 1.0, 10.0, 1e-3])) * max(1.0, abs(dlo), abs(dhi)) ** draw(st.sampled_from([0, 1]))
    if mode == "outside":
        return (dlo - d, mode) if which == "min" else (dhi + d, mode)
    # beyond: the limit lies past *all* data, nothing is in range
    return (dhi + d, mode) if which == "min" else (dlo - d, mode)


@st.composite
def hist_cases(draw, entry, families):
    family = draw(st.sampled_from(families))
    vals, dt, info = draw(_data(family))
    x64 = np.atleast_1d(np.array(vals, dtype=dt)).astype("f8")
    vmin, min_mode = _limit(draw, "min", x64, info)
    vmax, max_mode = _limit(draw, "max", x64, info)
    if vmin is not None and vmax is not None and vmin > vmax and "beyond" not in (min_mode, max_mode):
        vmin, vmax = vmax, vmin
    lo = float(x64.min()) if vmin is None else vmin
    hi = float(x64.max()) if vmax is None else vmax
    span = hi - lo
    spec = draw(st.sampled_from(["binsize", "nbin"]))
    if not span > 0:
        spec = "binsize"
    binsize = nbin = None
    if spec == "nbin":
        nbin = draw(st.one_of(st.integers(1, 12), st.sampled_from([1, 2, 3, 7, 10, 50, 64, 1000]),
                              st.integers(1, 200)))
        if draw(st.integers(0, 150)) == 0:
            nbin = 100000
    else:
        if info and draw(st.integers(0, 3)) != 0:
            binsize = info["step"]
        else:
            binsize = draw(st.one_of(st.sampled_from(NICE_STEPS), st.floats(0.01, 100.0),
                                     st.integers(1, 40).map(lambda k, s=span: s / k if s > 0 else 1.0)))
        if not binsize > 0:
            binsize = 1.0           # span/k underflowed (subnormal span): the statement needs binsize > 0
        cap = 1e5 if draw(st.integers(0, 150)) == 0 else 60.0
        if span > 0 and span / binsize > cap:
            binsize = span / draw(st.integers(1, 50))
            if not binsize > 0:
                binsize = 1.0
    lim_int = draw(st.booleans())
    case = {"x": enc(vals), "dtype": dt, "family": family, "binsize": binsize, "nbin": nbin,
            "min": enc(vmin), "max": enc(vmax), "min_mode": min_mode, "max_mode": max_mode,
            "entry": entry, "container": draw(st.sampled_from(["array", "array", "list", "strided", "reversed-view",
                                                                "record-field", "byteswapped"])),
            "lim_int": lim_int}
    if entry == "binner":
        case["again"] = draw(st.lists(st.sampled_from(["drop-limits", "drop-min", "drop-max", "same",
                                                       "other-binning"]), min_size=0, max_size=2))
        # calls made on the Binner before the one that is judged: counts only (no reverse indices asked for)
        case["prior"] = draw(st.sampled_from([None, None, "counts-only", "counts-only", "counts-only-other-binning"]))
    return case


def _args(case):
    vals = dec(case["x"])
    x = np.array(vals, dtype=case["dtype"])
    vmin, vmax = dec(case["min"]), dec(case["max"])
    if case["lim_int"]:
        # hand integral limits over as Python ints (a user writing min=0, max=10)
        if vmin is not None and float(vmin).is_integer() and abs(vmin) < 2 ** 53:
            vmin = int(vmin)
        if vmax is not None and float(vmax).is_integer() and abs(vmax) < 2 ** 53:
            vmax = int(vmax)
    return x, vmin, vmax


def _layout(container, x):
    """The same 1-d values in another container / memory layout (all of them are '1-d data')."""
    if container == "list":
        return x.tolist() if x.dtype.str[1:] in ("f8", "i8") else x
    if container == "strided":
        buf = np.zeros(2 * x.size + 1, dtype=x.dtype)      # the gaps hold zeros, not data
        v = buf[1::2]
        v[...] = x
        return v
    if container == "reversed-view":
        return np.ascontiguousarray(x[::-1])[::-1]
    if container == "record-field":
        rec = np.zeros(x.size, dtype=[("pad", "i2"), ("x", x.dtype), ("tail", "u1")])
        rec["pad"] = 257
        rec["x"] = x
        return rec["x"]
    if container == "byteswapped":
        return x.astype(x.dtype.newbyteorder(">" if x.dtype.byteorder in "=<|" else "<"))
    return x


def _again_specs(case, kw):
    """Settings for further dohist calls on the same Binner object (drawn with the case)."""
    out = []
    for how in case.get("again", []):
        kw2 = dict(kw)
        if how == "drop-limits":
            kw2["min"], kw2["max"] = None, None
        elif how == "drop-min":
            kw2["min"] = None
        elif how == "drop-max":
            kw2["max"] = None
        elif how == "other-binning":
            if "nbin" in kw2:
                kw2["nbin"] = kw2["nbin"] + 1
            else:
                kw2["binsize"] = kw2["binsize"] * 2.0
        out.append(kw2)
    return out


def _call(case, x, vmin, vmax):
    import esutil.stat as es
    data = _layout(case["container"], x)
    kw = {"min": vmin, "max": vmax}
    if case["nbin"] is not None:
        kw["nbin"] = case["nbin"]
    else:
        kw["binsize"] = case["binsize"]
    if case["entry"] == "histogram":
        r = sut(es.histogram, data, rev=True, **kw)
        if isinstance(r, Raised):
            return r
        require(isinstance(r, tuple) and len(r) == 2, "histogram(rev=True) must return (hist, rev), got %r",
                type(r))
        h0 = must(es.histogram, data, **kw)
        require(isinstance(h0, np.ndarray) and np.array_equal(h0, r[0]),
                "histogram() without rev returns different counts: %r vs %r", h0, r[0])
        return r[0], r[1], None
    b = es.Binner(data)
    if case.get("prior"):
        kw0 = dict(kw)
        if case["prior"] == "counts-only-other-binning":
            if "nbin" in kw0:
                kw0["nbin"] = kw0["nbin"] + 1
            else:
                kw0["binsize"] = kw0["binsize"] * 2.0
        sut(b.dohist, **kw0)            # whatever this call caches must not change the call judged below
    r = sut(b.dohist, rev=True, **kw)
    if isinstance(r, Raised):
        return r
    require("hist" in b and "rev" in b, "Binner.dohist(rev=True) left no 'hist'/'rev' entries")
    first = (b["hist"].copy(), b["rev"].copy())
    snapshot = {"nbin": b["nbin"], "binsize": b["binsize"]}
    # a Binner can be histogrammed again with other settings: the result must be that of a fresh Binner
    # (nothing of the earlier call -- limits, sort order, bin layout -- may leak into the later one)
    for kw2 in _again_specs(case, kw):
        x64 = np.atleast_1d(x).astype("f8")
        if hm.in_limits(x64, x64.min() if kw2["min"] is None else kw2["min"],
                        x64.max() if kw2["max"] is None else kw2["max"]).any():
            lo2 = x64.min() if kw2["min"] is None else kw2["min"]
            hi2 = x64.max() if kw2["max"] is None else kw2["max"]
            est = (hi2 - lo2) / kw2["binsize"] if kw2.get("binsize") else kw2.get("nbin", 1)
            if not est < 20000:
                continue        # dropping a limit can blow the bin count up; such calls are not made
        r2 = sut(b.dohist, rev=True, **kw2)
        fresh = es.Binner(_layout(case["container"], x))
        r3 = sut(fresh.dohist, rev=True, **kw2)
        if isinstance(r2, Raised) or isinstance(r3, Raised):
            require(isinstance(r2, Raised) and isinstance(r3, Raised) and type(r2.exc) is type(r3.exc),
                    "second dohist(%r) on a used Binner: %r, on a fresh Binner: %r", kw2, r2, r3)
            continue
        for key in ("hist", "rev"):
            require(np.array_equal(b[key], fresh[key]), "second dohist(%r) on a Binner that already served "
                    "dohist(%r): %s=%r, a fresh Binner gives %r", kw2, kw, key, np.asarray(b[key]).tolist()[:40],
                    np.asarray(fresh[key]).tolist()[:40])
    return first[0], first[1], snapshot


def check_hist(case, ctx):
    import esutil.stat.util as su
    if not su.have_chist:
        raise HarnessError("esutil.stat._chist is not available in this build")
    x, vmin, vmax = _args(case)
    x64 = np.atleast_1d(x).astype("f8")
    d = hm.derive(x64, case["binsize"], case["nbin"], vmin, vmax)
    nin = int(hm.in_limits(x64, d["lo"], d["hi"]).sum())
    res = {}
    for eng in ("C", "py"):
        try:
            su.have_chist = (eng == "C")
            res[eng] = _call(case, x, vmin, vmax)
        finally:
            su.have_chist = True
    for eng in ("C", "py"):
        r = res[eng]
        if nin == 0:
            require(isinstance(r, Raised) and isinstance(r.exc, ValueError),
                    "[%s engine] no datum within [min,max]: the documented ValueError is expected, got %r",
                    eng, r)
            continue
        require(not isinstance(r, Raised), "[%s engine] raised on valid input: %r", eng, r)
        hist, rev, b = r
        require(isinstance(hist, np.ndarray) and isinstance(rev, np.ndarray), "hist/rev are not arrays")
        require(hist.size in d["nbin_alt"], "[%s engine] %d bins, documented derivation gives %s "
                "(lo=%r hi=%r binsize=%r nbin=%r)", eng, hist.size, sorted(d["nbin_alt"]), d["lo"], d["hi"],
                case["binsize"], case["nbin"])
        msg = hm.verify_partition(x64, d["lo"], d["hi"], d["binsize"], hist, rev)
        require(msg is None, "[%s engine] %s", eng, msg)
        if b is not None:
            require(b["nbin"] == hist.size and b["binsize"] == d["binsize"],
                    "[%s engine] Binner reports nbin=%r binsize=%r, expected %r %r", eng, b["nbin"],
                    b["binsize"], hist.size, d["binsize"])
    if nin == 0:
        ctx.count("rejected-empty-range")
        return
    hc, rc, _ = res["C"]
    hp, rp, _ = res["py"]
    require(hc.dtype == hp.dtype and hc.shape == hp.shape and np.array_equal(hc, hp),
            "engines disagree on hist: C %r, Python %r", hc.tolist()[:60], hp.tolist()[:60])
    require(rc.dtype == rp.dtype and rc.shape == rp.shape and np.array_equal(rc, rp),
            "engines disagree on rev: C %r, Python %r", rc.tolist()[:80], rp.tolist()[:80])


def classify_hist(case):
    x, vmin, vmax = _args(case)
    x64 = np.atleast_1d(x).astype("f8")
    labs = ["family:" + case["family"], "dtype:" + case["dtype"], "min:" + case["min_mode"],
            "max:" + case["max_mode"], "spec:" + ("nbin" if case["nbin"] is not None else "binsize"),
            "container:" + case["container"]]
    d = hm.derive(x64, case["binsize"], case["nbin"], vmin, vmax)
    inl = hm.in_limits(x64, d["lo"], d["hi"])
    if not inl.any():
        labs.append("empty-range(ValueError)")
        return labs
    if case.get("prior"):
        labs.append("prior-call:" + case["prior"])
    a = hm.assign(x64, d["lo"], d["hi"], d["binsize"], d["nbin"])
    counted = a >= 0
    occ = np.unique(a[counted])
    nne = occ.size
    labs.append("nonempty-bins:%s" % (nne if nne < 3 else "3+"))
    labs.append("nbin:%s" % ("1" if d["nbin"] == 1 else "2-60" if d["nbin"] <= 60 else ">60"))
    tie = np.unique(x64[counted]).size < int(counted.sum())
    with np.errstate(all="ignore"):
        q = (x64 - d["lo"]) / d["binsize"]
    edge = bool(np.any(counted & (q == np.floor(q)) & (q > 0)))
    excl = bool(np.any(~inl))
    trailing = bool(np.any(inl & ~counted))
    interior = nne >= 2 and (occ[-1] - occ[0] + 1) > nne
    if tie:
        labs.append("tie")
    if edge:
        labs.append("edge-datum")
    if excl:
        labs.append("limit-excludes")
    if trailing:
        labs.append("in-range-beyond-last-bin")
    if interior:
        labs.append("empty-interior-bin")
    if len(d["nbin_alt"]) > 1:
        labs.append("ambiguous-nbin")
    if nne >= 2 and (tie or edge or excl or interior):
        labs.append("nt:partition")
    return labs


ALL_FAM = ["decades", "pool", "intfloat", "ints", "grid", "grid", "const"]

SUBCHECKS = [
    Subcheck("histogram", lambda: hist_cases("histogram", ALL_FAM), check_hist, classify_hist,
             quick=7200, thorough=120000, shards=None),
    Subcheck("binner", lambda: hist_cases("binner", ALL_FAM), check_hist, classify_hist,
             quick=5400, thorough=90000),
    Subcheck("edges", lambda: hist_cases("histogram", ["grid", "intfloat", "ints"]), check_hist, classify_hist,
             quick=5400, thorough=90000),
]
