"""C04 -- delimited-text record files round-trip values and structure.

Oracle: integers and strings byte-exact; floats agree to the stated number of significant
digits, evaluated literally as equality of the '%.16g' (f8) / '%.7g' (f4) renderings (a
correctly rounded 16/7-digit -- or better, e.g. 17-digit -- writer and a correctly rounded
parser always satisfy it; NaN<->NaN, signed infinities preserved).
"""
import numpy as np
from hypothesis import strategies as st

from vp.api import Subcheck, Violation, must, require
from vp.gen import tables as T

PROPERTY = "C04"
RULE = ("table = packed structured dtype of 1-6 fields from i1..u8, f4, f8, S1..S12 (scalar or 1-3-d sub-arrays), "
        "one byte order per table ('<' or '>') or, one table in five, an independent order per field; 1-40 rows (1 in 20: up to 200); body zeros or typed random values "
        "(full-range ints, floats over 600 decades with random mantissas, printable-ASCII strings incl. blanks, "
        "tabs and delimiter characters with NUL padding at the tail only) plus up to 6 special-value overlays "
        "(NaN both signs, +-inf, +-0, denormal, DBL_MIN, 17-digit values, integer extremes, strings with leading/"
        "trailing/embedded blanks or delimiter characters, empty strings); delim in {',', ':', tab, space, ';', "
        "'|'}; entry point in sfile.write/read, SFile handle, Recfile with/without nrows, recfile.write/read; "
        "input optionally a strided view. Non-trivial: a float field holding a non-finite or >=16-digit value, or "
        "an integer extreme, or a string with leading/embedded/trailing blank or a delimiter character, or "
        "big-endian input, or a sub-array field. Distinct = distinct case JSON."
        " Also: per-field byte order, wide fields (rows up to 200 kB of text), rows made of blanks only in string-only tables.")
ASSUMPTIONS = [
    "f8 magnitudes stop at 1.797693134862315e308: DBL_MAX itself prints as 1.797693134862316e+308 in 16 digits, "
    "which no finite double is within 16 digits of",
    "strings are ASCII without newline characters; NUL occurs only as trailing padding",
    "padnull/ignorenull/bracket_arrays options are not exercised (documented as not round-tripping)",
]
TECHNIQUE = "property-based round-trip testing (Hypothesis): write/read through the real extension, exact ints/strings and significant-digit float oracle, file-structure inspection"
LEVEL_TEXT = ("Generated-input search over dtypes, values, delimiters and entry points; every case is written as "
              "text, inspected on disk and read back. Shows the property on the cases explored.")

ENTRIES = ["sfile_fn", "sfile_obj", "recfile_obj", "recfile_obj_nrows", "recfile_fn", "recfile_fn_nrows"]


@st.composite
def cases(draw):
    t = draw(T.tables(kind="text", max_fields=6, max_rows=40, big_rows=200, allow_mixed_order=True, sizes=True))
    return {"table": t, "delim": draw(st.sampled_from(T.TEXT_DELIMS)), "entry": draw(st.sampled_from(ENTRIES)),
            "layout": draw(st.sampled_from(["contig", "contig", "contig", "strided"]))}


def _input_array(case):
    data = T.build(case["table"])
    if case["layout"] == "strided":
        big = np.zeros(data.size * 2 + 1, dtype=data.dtype)
        big[1::2] = data
        return big[1::2], data
    return data, data


def _fmt(v, code):
    return ("%.16g" if code == "f8" else "%.7g") % float(v)


def compare_text(out, data, tcase, what):
    require(isinstance(out, np.ndarray), "%s: result is %r", what, type(out))
    require(out.dtype.names == data.dtype.names, "%s: field names %r != written %r", what, out.dtype.names,
            data.dtype.names)
    require(out.shape == data.shape, "%s: %d rows read, %d written", what, out.size, data.size)
    for ent in tcase["descr"]:
        name, code = ent[0], T.base_code(ent[1])
        fo, fd = out.dtype[name], data.dtype[name]
        require(fo.shape == fd.shape, "%s: field %s has shape %r, written %r", what, name, fo.shape, fd.shape)
        require(fo.base.isnative, "%s: field %s is not in native byte order (%s)", what, name, fo.base.str)
        require(fo.base.kind == fd.base.kind and fo.base.itemsize == fd.base.itemsize,
                "%s: field %s has type %s, written %s", what, name, fo.base.str, fd.base.str)
        got = np.ascontiguousarray(out[name]).reshape(-1)
        want = np.ascontiguousarray(data[name]).reshape(-1)
        if code in T.FLOATS:
            want = want.astype(want.dtype.newbyteorder("="))
            wn, gn = np.isnan(want), np.isnan(got)
            bad = wn != gn
            ok = ~wn & ~gn
            same = np.zeros(want.shape, dtype=bool)
            same[ok] = got[ok] == want[ok]
            need = np.flatnonzero(ok & ~same)
            for i in need.tolist():
                if np.isinf(want[i]) or np.isinf(got[i]) or _fmt(got[i], code) != _fmt(want[i], code):
                    bad[i] = True
            if bad.any():
                i = int(np.flatnonzero(bad)[0])
                nel = max(1, want.size // max(1, data.size))
                raise Violation("%s: field %s row %d: read %r, written %r (renderings %s vs %s)" % (
                    what, name, i // nel, got[i], want[i], _fmt(got[i], code), _fmt(want[i], code)))
        elif code in T.INTS:
            want = want.astype(want.dtype.newbyteorder("="))
            if not np.array_equal(got, want):
                i = int(np.flatnonzero(got != want)[0])
                nel = max(1, want.size // max(1, data.size))
                raise Violation("%s: field %s row %d: read %r, written %r" % (what, name, i // nel, got[i], want[i]))
        else:
            if got.tobytes() != want.tobytes():
                i = next(k for k in range(want.size) if got[k:k + 1].tobytes() != want[k:k + 1].tobytes())
                nel = max(1, want.size // max(1, data.size))
                raise Violation("%s: field %s row %d: read %r, written %r" % (
                    what, name, i // nel, got[i:i + 1].tobytes(), want[i:i + 1].tobytes()))


def check_roundtrip(case, ctx):
    from esutil import recfile, sfile
    arg, data = _input_array(case)
    before = arg.tobytes()
    delim = case["delim"]
    e = case["entry"]
    fname = ctx.tmpfile("t.rec")
    if e == "sfile_fn":
        must(sfile.write, fname, arg, delim=delim)
    elif e == "sfile_obj":
        def w():
            if case["table"]["seed"] % 2:
                # an SFile object that already wrote (and read) another file and is re-pointed with open()
                decoy = ctx.tmpfile("decoy.rec")
                sf = sfile.SFile(decoy, "w", delim=delim)
                sf.write(arg[:1])
                sf.close()
                sf.open(decoy)
                sf.read()
                sf.close()
                sf.open(fname, "w", delim=delim)
                sf.write(arg)
                sf.close()
                return
            with sfile.SFile(fname, "w", delim=delim) as sf:
                sf.write(arg)
        must(w)
    elif e.startswith("recfile_obj"):
        def w():
            with recfile.Recfile(fname, "w", delim=delim) as r:
                r.write(arg)
        must(w)
    else:
        must(recfile.write, fname, arg, delim=delim)
    with open(fname, "rb") as fh:
        raw = fh.read()
    if e.startswith("sfile"):
        k = raw.find(b"\nEND\n\n")
        require(k > 0 and raw.startswith(b"SIZE = "), "text file has no SIZE/END header: %r", raw[:60])
        body = raw[k + 6:]
    else:
        body = raw
    require(body.count(b"\n") == data.size and body.endswith(b"\n"),
            "text body has %d newline-terminated lines, %d rows were written", body.count(b"\n"), data.size)
    if e == "sfile_fn":
        r = must(sfile.read, fname, header=True)
        require(isinstance(r, tuple) and len(r) == 2, "sfile.read(header=True) returned %r", type(r))
        out, h = r
    elif e == "sfile_obj":
        def rd():
            with sfile.SFile(fname) as sf:
                return sf.read(), sf.get_header()
        out, h = must(rd)
    else:
        h = None
        kw = {"nrows": data.size} if e.endswith("nrows") else {}
        if e.startswith("recfile_obj"):
            def rd():
                with recfile.Recfile(fname, "r", dtype=data.dtype, delim=delim, **kw) as rf:
                    return rf.read(), rf.nrows
            out, n = must(rd)
            require(n == data.size, "Recfile.nrows=%r for a text file of %d rows", n, data.size)
        else:
            out = must(recfile.read, fname, data.dtype, delim=delim, **kw)
    compare_text(out, data, case["table"], e)
    if h is not None:
        require(h.get("_DELIM") == delim, "header _DELIM=%r, written with delim=%r", h.get("_DELIM"), delim)
        require(h.get("_SIZE") == data.size, "header _SIZE=%r, %d rows written", h.get("_SIZE"), data.size)
        d = h.get("_DTYPE")
        require(isinstance(d, list) and len(d) == len(case["table"]["descr"]), "header _DTYPE=%r", d)
        for ent, want in zip(d, case["table"]["descr"]):
            require(ent[0] == want[0], "header _DTYPE names %r", d)
            require(isinstance(ent[1], str) and ent[1] and ent[1][0] not in "<>=|",
                    "header _DTYPE type string %r carries a byte-order character", ent[1])
            require(ent[1] == T.base_code(want[1]), "header _DTYPE type %r for a field written as %r", ent[1], want[1])
            if len(want) == 3:
                require(len(ent) == 3 and tuple(np.atleast_1d(ent[2]).tolist()) == tuple(want[2]),
                        "header _DTYPE shape %r for field written with %r", ent, want[2])
    require(arg.tobytes() == before, "the array passed to the text writer was modified")


def _blank_predicates(case):
    """(has a string cell that starts with white space or a delimiter char, ...) evaluated on the
    built table -- used by classify and by narrow known-finding predicates."""
    data = T.build(case["table"])
    lead_ws = lead_delim = False
    d = case["delim"].encode()
    for ent in case["table"]["descr"]:
        if T.base_code(ent[1])[0] != "S":
            continue
        col = np.ascontiguousarray(data[ent[0]]).reshape(-1)
        w = col.dtype.itemsize
        first = np.frombuffer(col.tobytes(), dtype="u1")[::w]
        if np.isin(first, [32, 9, 11, 12, 13]).any():
            lead_ws = True
        if (first == d[0]).any():
            lead_delim = True
    return lead_ws, lead_delim


def classify(case):
    t = case["table"]
    labs = set(T.describe(t))
    labs.add("entry:" + case["entry"])
    labs.add("delim:" + repr(case["delim"]))
    labs.add("layout:" + case["layout"])
    lead_ws, lead_delim = _blank_predicates(case)
    if lead_ws:
        labs.add("string-leading-whitespace")
    if lead_delim:
        labs.add("string-leading-delim")
    nt = bool(labs & {"nonfinite", "digits", "extreme", "str-leading-blank", "str-trailing-blank", "str-delim-char",
                      "big-endian", "string-leading-whitespace", "string-leading-delim"})
    nt = nt or any(x.startswith("subarray") for x in labs)
    if t["fill"] == "rand" and "float" in labs:
        nt = True          # random mantissas: >= 16 significant digits
        labs.add("random-mantissa-floats")
    if nt:
        labs.add("nt:values")
    return sorted(labs)


SANITIZE = True        # thorough tier: reduced pass against an ASan build of the extensions
SANITIZE_SCALE = 0.05

SUBCHECKS = [
    Subcheck("roundtrip", cases, check_roundtrip, classify, quick=9000, thorough=150000),
]
