"""C03 -- appends accumulate: the file equals the concatenation of all writes.

Model-based histories: a Hypothesis-drawn list of operations (the strategy tracks the model state
while drawing, so every operation is valid in its state) is interpreted against a list-of-chunks
model.  Nothing of esutil computes an expectation: the expected table is numpy.concatenate of
the chunks that were handed to esutil, the expected header is the dict given at creation.
"""
import os
import re

import numpy as np
from hypothesis import strategies as st

from vp.api import Raised, Subcheck, Violation, require, sut
from vp.case import dec
from vp.gen import headers as H
from vp.gen import rectext as RT
from vp.gen import tables as T

PROPERTY = "C03"
RULE = ("history = 1-12 operations drawn state-dependently from {create / overwrite (sfile.write in both argument "
        "orders, io.write, or an SFile('w') handle kept open; with or without a user header; overwrite may switch to a "
        "second dtype / file form), write-again on the open handle, close, append-by-reopen (sfile.write(append=True), "
        "io.write(append=True), SFile('r+') closed or kept open; also to a file that does not exist yet; optionally "
        "passing a different header= which must be ignored; text: optionally with the other byte order), incompatible "
        "append (field renamed / type changed incl. same-width changes / field added / removed / two fields swapped / "
        "sub-array shape changed incl. (1,) and transposed shapes / binary: byte order flipped; by reopening or on the "
        "open handle), read-back (sfile.read, SFile.read, SFile[:], io.read, through an r+ handle)}; dtype = 1-5 fields "
        "(binary: all C01 types, raw random bytes; text: ints full range, letter/digit strings, exactly printable floats), "
        "delim in {None, ',', tab, space}; chunks of 1-30 rows (1 in 12: hundreds to 1500, crossing stdio buffers), "
        "contiguous or strided. After every step without an open write handle (or only at explicit read-backs and at "
        "the end, drawn per history) the file is compared with the model. A second sub-check runs header-less Recfile "
        "histories (Recfile('w') / recfile.write, write-again, close, reopen with 'r+', overwrite, read-back). "
        "Non-trivial: the history has an append-by-reopen after a close, or an incompatible append, or an overwrite "
        "followed by an append. Distinct = distinct case JSON."
        " Also: binary chunks of 64 KiB..2 MiB (row count derived from the row size), reserved header names in any case.")
RULE += (" " + 'Also: one chunk in seven is a 2-d array of records; user headers may carry keys that contain a reserved name.')
ASSUMPTIONS = [
    "reads happen only while no write handle is open (documented usage; buffered data of an open handle need not be on disk)",
    "one handle at a time on a file; 1-d chunks with at least one row; packed dtypes",
    "text histories: strings are letters/digits only and floats are dyadic rationals with at most 7 (f4) / 15 (f8) "
    "significant decimal digits, so the text form is exact and the comparison is exact equality (the digits, blanks and "
    "delimiter characters inside strings belong to C04); no NaN/inf in text histories",
    "SFile mode 'w+' is not used (Records refuses it without a dtype); header-less Recfile files are never appended "
    "to when missing (Recfile documents that 'r+' requires an existing file)",
    "user header floats are finite; header keys never collide (case-insensitively) with the reserved names",
]
TECHNIQUE = ("model-based (stateful) property testing with Hypothesis: generated operation histories interpreted against a "
             "list-of-chunks model, file bytes inspected directly")
LEVEL_TEXT = ("Generated-history search: every generated history is executed against the real extension and after each "
              "observable step the file's rows, row count, header and raw bytes are compared with a list-of-chunks "
              "model. Shows the property on the histories explored, not for all histories.")

DELIMS = [None, None, None, ",", "\t", " "]
BAD_KINDS = ["rename", "type", "type", "add", "remove", "swap", "shape", "shape", "order"]
TYPE_ALT = {"i1": "u1", "u1": "i1", "i2": "u2", "u2": "i4", "i4": "i8", "u4": "i4", "i8": "f8", "u8": "i8",
            "f4": "i4", "f8": "f4", "b1": "u1", "c8": "f8", "c16": "c8"}


# ----------------------------------------------------------------------------- strategies

@st.composite
def _form(draw):
    delim = draw(st.sampled_from(DELIMS))
    t = draw(T.tables(kind="binary" if delim is None else "text", max_fields=5, max_rows=1, big_rows=0))
    return {"descr": t["descr"], "delim": delim}


@st.composite
def _chunk(draw, text):
    if draw(st.integers(0, 11)) == 11:
        n = draw(st.integers(100, 400) if text else st.integers(200, 1500))
    else:
        n = draw(st.integers(1, 30))
    c = {"n": n, "seed": draw(st.integers(0, 2 ** 32 - 1)),
         "layout": draw(st.sampled_from(["contig", "contig", "contig", "contig", "strided", "strided", "2d", "2d-F"]))}
    if not text and draw(st.integers(0, 39)) == 0:
        # a binary chunk whose size sits next to a power-of-two boundary a buffered writer might split at
        # (the row count follows from the row size of the form when the chunk is built)
        c["target_bytes"] = draw(st.sampled_from([65536, 2 ** 20, 2 ** 21, 2 ** 22, 2 ** 23])) + draw(st.sampled_from([0, 1, 4096]))
        c["layout"] = "contig"
    return c


def _bad_kinds_for(descr, text):
    kinds = []
    for k in BAD_KINDS:
        if k in ("remove", "swap") and len(descr) < 2:
            continue
        if k == "order" and (text or not any(e[1][0] in "<>" for e in descr)):
            continue
        kinds.append(k)
    return kinds


@st.composite
def _bad(draw, descr, text):
    kind = draw(st.sampled_from(_bad_kinds_for(descr, text)))
    if kind == "order":
        cand = [i for i, e in enumerate(descr) if e[1][0] in "<>"]
        f = draw(st.sampled_from(cand))
    else:
        f = draw(st.integers(0, len(descr) - 1))
    return {"kind": kind, "field": f, "variant": draw(st.integers(0, 2))}


@st.composite
def histories(draw):
    forms = [draw(_form())]
    if draw(st.booleans()):
        forms.append(draw(_form()))
    ops = []
    exists, handle, cur = False, None, 0
    nsteps = draw(st.one_of(st.integers(1, 12), st.integers(4, 12)))
    for _ in range(nsteps):
        if handle is not None:
            kind = draw(st.sampled_from(["write_again", "write_again", "write_again", "close", "close", "write_bad"]))
        elif not exists:
            kind = draw(st.sampled_from(["create", "create", "append"]))
        else:
            kind = draw(st.sampled_from(["append", "append", "append", "append", "append_bad", "append_bad",
                                         "create", "read_back"]))
        op = {"op": kind}
        if kind == "create":
            # creation, or (when the file exists) a non-append write that replaces it
            cur = draw(st.integers(0, len(forms) - 1)) if exists else 0
            op.update(form=cur, via=draw(st.sampled_from(["fn", "fn", "fn_swapped", "io", "handle", "handle"])),
                      header=draw(H.headers()), chunk=draw(_chunk(forms[cur]["delim"] is not None)))
            exists = True
            handle = "w" if op["via"] == "handle" else None
        elif kind == "append":
            text = forms[cur]["delim"] is not None
            op.update(via=draw(st.sampled_from(["fn", "fn", "io", "handle", "handle_keep"])),
                      chunk=draw(_chunk(text)), pass_delim=draw(st.booleans()),
                      other_delim=draw(st.sampled_from([False, False, True])))
            if not exists:
                op["form"] = cur = 0
                op["header"] = draw(H.headers())
                text = forms[0]["delim"] is not None
                op["chunk"] = draw(_chunk(text))
            elif draw(st.integers(0, 4)) == 0:
                op["header"] = draw(H.headers())      # must be ignored: the creation header is retained
            if text and exists and draw(st.integers(0, 3)) == 0:
                op["flip"] = True                     # other byte order: compatible for text
            exists = True
            handle = "r+" if op["via"] == "handle_keep" else None
        elif kind in ("append_bad", "write_bad"):
            text = forms[cur]["delim"] is not None
            op.update(bad=draw(_bad(forms[cur]["descr"], text)), chunk=draw(_chunk(text)))
            if kind == "append_bad":
                op["via"] = draw(st.sampled_from(["fn", "fn", "io", "handle"]))
        elif kind == "write_again":
            op["chunk"] = draw(_chunk(forms[cur]["delim"] is not None))
        elif kind == "close":
            handle = None
        elif kind == "read_back":
            op["via"] = draw(st.sampled_from(["sfile.read", "SFile.read", "SFile[:]", "io.read", "SFile(r+).read"]))
        ops.append(op)
    return {"forms": forms, "ops": ops, "verify_each": draw(st.booleans()),
            # how the caller names the file: a plain path, or one with an environment variable in it (the three
            # record-file modules expand $VAR and ~ themselves)
            "path": draw(st.sampled_from(["plain", "plain", "plain", "envvar"]))}


@st.composite
def recfile_histories(draw):
    forms = [draw(_form())]
    if draw(st.booleans()):
        forms.append(draw(_form()))
    ops = []
    exists, handle, cur = False, None, 0
    for _ in range(draw(st.one_of(st.integers(1, 10), st.integers(3, 10)))):
        if handle is not None:
            kind = draw(st.sampled_from(["write_again", "write_again", "close", "close"]))
        elif not exists:
            kind = "create"
        else:
            kind = draw(st.sampled_from(["append", "append", "append", "create", "read_back"]))
        op = {"op": kind}
        if kind == "create":
            cur = draw(st.integers(0, len(forms) - 1)) if exists else 0
            op.update(form=cur, via=draw(st.sampled_from(["fn", "handle", "handle"])),
                      chunk=draw(_chunk(forms[cur]["delim"] is not None)))
            exists = True
            handle = "w" if op["via"] == "handle" else None
        elif kind == "append":
            op.update(via=draw(st.sampled_from(["fn", "handle", "handle_keep"])),
                      chunk=draw(_chunk(forms[cur]["delim"] is not None)), nrows_given=draw(st.booleans()))
            handle = "r+" if op["via"] == "handle_keep" else None
        elif kind == "write_again":
            op["chunk"] = draw(_chunk(forms[cur]["delim"] is not None))
        elif kind == "close":
            handle = None
        elif kind == "read_back":
            op["via"] = draw(st.sampled_from(["recfile.read", "Recfile.read", "Recfile[:]", "Recfile(r+).read"]))
            op["nrows_given"] = draw(st.booleans())
        ops.append(op)
    return {"forms": forms, "ops": ops, "verify_each": draw(st.booleans()),
            # how the caller names the file: a plain path, or one with an environment variable in it (the three
            # record-file modules expand $VAR and ~ themselves)
            "path": draw(st.sampled_from(["plain", "plain", "plain", "envvar"]))}


# ----------------------------------------------------------------------------- building chunks

def _path_arg(case, real):
    """The file name as handed to esutil: the real path, or the same file named through an environment variable."""
    if case.get("path") != "envvar":
        return real
    os.environ["VERIF_C03_DIR"] = os.path.dirname(real)
    return "$VERIF_C03_DIR/" + os.path.basename(real)


def _tcase(descr):
    return {"descr": descr, "nrows": 1, "fill": "rand", "seed": 0, "cells": []}


def _build(descr, text, chunk):
    t = _tcase(descr)
    if text:
        a = RT.build_exact(t, seed=chunk["seed"], nrows=chunk["n"])
    else:
        n = chunk["n"]
        if "target_bytes" in chunk:
            n = chunk["target_bytes"] // T.dtype_of(t).itemsize + 2
        a = RT.build_binary(t, seed=chunk["seed"], nrows=n)
    return a


def _as_arg(a, chunk):
    if chunk.get("layout") == "strided":
        big = np.zeros(a.size * 2 + 1, dtype=a.dtype)
        big[1::2] = a
        return big[1::2]
    if chunk.get("layout") in ("2d", "2d-F"):
        # the chunk held as a 2-d array of records: its records in C (logical) order are the rows appended,
        # whether the array is stored row-major or column-major
        k = next((k for k in (2, 3, 5) if a.size % k == 0 and a.size > k), 1)
        b = a.reshape(k, a.size // k)
        return np.asfortranarray(b) if chunk["layout"] == "2d-F" else b
    return a


def _flip_descr(descr):
    out = []
    for e in descr:
        e = list(e)
        if e[1][0] in "<>":
            e[1] = ("<" if e[1][0] == ">" else ">") + e[1][1:]
        out.append(e)
    return out


def bad_descr(descr, bad):
    """A dtype that is incompatible with `descr` in exactly one respect."""
    d = [list(e) for e in descr]
    f, kind, var = bad["field"], bad["kind"], bad["variant"]
    names = [e[0] for e in d]
    if kind == "rename":
        new = d[f][0] + ["_q", "2", "X"][var]
        while new in names:
            new += "_"
        d[f][0] = new
    elif kind == "type":
        o, code = d[f][1][0], T.base_code(d[f][1])
        if code[0] == "S":
            w = int(code[1:])
            alt = "S%d" % (w + 1 if var != 1 or w == 1 else w - 1)
        else:
            alt = TYPE_ALT[code]
        if alt[0] == "S" or alt in ("i1", "u1", "b1"):
            o = "|"
        elif o == "|":
            o = "<"
        d[f][1] = o + alt
    elif kind == "add":
        new = "extra"
        while new in names:
            new += "_"
        d.insert([len(d), 0, f][var], [new, ["<i4", "|S2", "<f8"][var]])
    elif kind == "remove":
        del d[f]
    elif kind == "swap":
        g = (f + 1) % len(d)
        d[f], d[g] = d[g], d[f]
    elif kind == "shape":
        if len(d[f]) == 3:
            shp = list(d[f][2])
            if var == 0 and shp != shp[::-1]:
                d[f][2] = shp[::-1]                 # same number of elements, transposed
            elif var == 1 and int(np.prod(shp)) == 1:
                d[f] = d[f][:2]                     # (1,) -> scalar: same bytes
            elif var == 1 and len(shp) > 1:
                d[f][2] = [int(np.prod(shp))]       # flattened: same bytes
            else:
                d[f][2] = shp[:-1] + [shp[-1] + 1]
        else:
            d[f].append([[1], [2], [1, 1]][var])    # scalar -> (1,): same bytes
    elif kind == "order":
        d[f][1] = ("<" if d[f][1][0] == ">" else ">") + d[f][1][1:]
    else:
        raise AssertionError(kind)
    return d


# ----------------------------------------------------------------------------- model and verification

class Model(object):
    def __init__(self):
        self.exists = False
        self.form = None        # dict descr/delim
        self.header = None      # user header given at creation
        self.chunks = []
        self.head_rest = None   # header bytes after the SIZE line, fixed at creation

    def reset(self, form, header, first):
        self.exists, self.form, self.header, self.chunks, self.head_rest = True, form, header, [first], None

    @property
    def text(self):
        return self.form["delim"] is not None

    def table(self):
        # not numpy.concatenate: it converts to native byte order
        out = np.empty(self.total(), dtype=self.chunks[0].dtype)
        pos = 0
        for c in self.chunks:
            out[pos:pos + c.size] = c
            pos += c.size
        return out

    def total(self):
        return sum(c.size for c in self.chunks)


SIZE_LINE = re.compile(rb"SIZE = [ 0-9]{20}\n")


def _split_file(raw, what):
    require(SIZE_LINE.match(raw) is not None, "%s: file does not start with a fixed-width 'SIZE = %%20d' line: %r",
            what, raw[:40])
    end = raw.find(b"\nEND\n\n")
    require(end > 0, "%s: no END line + blank line in the file", what)
    return raw[:28], raw[28:end + 6], raw[end + 6:]


def _equal_tables(out, want, text, what):
    require(isinstance(out, np.ndarray), "%s: read returned %r", what, type(out))
    require(out.dtype.names == want.dtype.names, "%s: fields %r, written %r", what, out.dtype.names, want.dtype.names)
    if text:
        wd = want.dtype.newbyteorder("=")
        require(out.dtype == wd, "%s: dtype %r, expected native %r", what, out.dtype.descr, wd.descr)
    else:
        require(out.dtype == want.dtype and out.dtype.descr == want.dtype.descr, "%s: dtype %r, written %r", what,
                out.dtype.descr, want.dtype.descr)
    require(out.shape == want.shape, "%s: %d rows read, %d rows were written in total", what, out.size, want.size)
    if not text:
        if out.tobytes() != want.tobytes():
            ob, wb = out.tobytes(), want.tobytes()
            i = next(k for k in range(len(wb)) if ob[k] != wb[k])
            raise Violation("%s: rows differ from the concatenation of the chunks first at row %d (byte %d)"
                            % (what, i // want.dtype.itemsize, i))
        return
    for nm in want.dtype.names:
        g, w = out[nm], want[nm]
        if not np.array_equal(g, w):
            bad = np.nonzero((g != w).reshape(g.shape[0], -1).any(axis=1))[0]
            raise Violation("%s: field %r differs from the concatenation of the chunks first at row %d: got %r "
                            "expected %r" % (what, nm, bad[0], g[bad[0]].tolist(), w[bad[0]].tolist()))


def _check_header(h, m, what):
    require(isinstance(h, dict), "%s: header is %r", what, type(h))
    require(h.get("_SIZE") == m.total() and isinstance(h.get("_SIZE"), int),
            "%s: _SIZE=%r but %d rows were written in total (chunks %r)", what, h.get("_SIZE"), m.total(),
            [c.size for c in m.chunks])
    want = m.chunks[0].dtype
    got = np.dtype(h["_DTYPE"])
    if m.text:
        require(got == want.newbyteorder("="), "%s: _DTYPE %r, expected %r", what, h["_DTYPE"], want.descr)
        require(h.get("_DELIM") == m.form["delim"], "%s: _DELIM=%r, created with %r", what, h.get("_DELIM"),
                m.form["delim"])
    else:
        require(got == want and got.descr == want.descr, "%s: _DTYPE %r, written %r", what, h["_DTYPE"], want.descr)
        require(h.get("_DELIM") is None, "%s: binary file has _DELIM=%r", what, h.get("_DELIM"))
    for k, v in (m.header or {}).items():
        if H.is_reserved(k):
            continue            # reserved names need not survive (statement)
        require(k in h, "%s: user header key %r given at creation is missing (keys %r)", what, k, sorted(h))
        require(H.equal_typed(h[k], v), "%s: user header key %r is %r, given at creation: %r", what, k, h[k], v)
    extra = set(h) - set(m.header or {}) - {"_SIZE", "_DTYPE", "_VERSION", "_DELIM"}
    require(not extra, "%s: header has keys %r that were not given at creation", what, sorted(extra))


def _verify(fname, m, via, what):
    import esutil
    from esutil import sfile
    want = m.table()
    if via == "sfile.read":
        out, h = sfile.read(fname, header=True)
    elif via == "io.read":
        out, h = esutil.io.read(fname, header=True)
    else:
        with sfile.SFile(fname, "r+" if via == "SFile(r+).read" else "r") as sf:
            out = sf[:] if via == "SFile[:]" else sf.read()
            h = sf.get_header()
            require(sf.nrows == want.size, "%s: SFile.nrows=%r, %d rows were written in total", what, sf.nrows, want.size)
    what = "%s [%s]" % (what, via)
    _check_header(h, m, what)
    _equal_tables(out, want, m.text, what)
    _check_header(sfile.read_header(fname), m, what + " read_header")
    # the bytes of the file
    with open(os.path.expandvars(fname), "rb") as fh:
        raw = fh.read()
    first, rest, body = _split_file(raw, what)
    require(int(first[7:]) == want.size, "%s: SIZE line says %r, %d rows were written", what, first, want.size)
    if m.head_rest is None:
        m.head_rest = rest
    require(rest == m.head_rest, "%s: the header text written at creation was changed by a later write", what)
    if m.text:
        require(body.count(b"\n") == want.size and body.endswith(b"\n"), "%s: %d text lines after the header for %d rows",
                what, body.count(b"\n"), want.size)
    else:
        require(body == want.tobytes(), "%s: the %d bytes after the header are not the concatenated chunks (%d bytes)",
                what, len(body), want.nbytes)


def _file_bytes(fname):
    with open(os.path.expandvars(fname), "rb") as fh:
        return fh.read()


# ----------------------------------------------------------------------------- interpreter (sfile)

def check_history(case, ctx):
    import esutil
    from esutil import sfile
    forms = case["forms"]
    fname = _path_arg(case, ctx.tmpfile("h.rec"))
    m = Model()
    handle = None
    ops = case["ops"]
    try:
        for i, op in enumerate(ops):
            kind = op["op"]
            what = "step %d %s" % (i, kind)
            if kind in ("create", "append") and "form" in op:
                form = forms[op["form"]]
            else:
                form = m.form
            text = form is not None and form["delim"] is not None
            if kind in ("create", "append", "write_again"):
                descr = form["descr"]
                if op.get("flip"):
                    descr = _flip_descr(descr)
                chunk = _build(descr, text, op["chunk"])
                arg = _as_arg(chunk, op["chunk"])
            if kind == "create":
                hdr = dec(op.get("header"))
                kw = {}
                if hdr is not None:
                    kw["header"] = hdr
                if text:
                    kw["delim"] = form["delim"]
                via = op["via"]
                if via == "fn":
                    sfile.write(fname, arg, **kw)
                elif via == "fn_swapped":
                    sfile.write(arg, fname, **kw)
                elif via == "io":
                    esutil.io.write(fname, arg, **kw)
                else:
                    hk = {"delim": form["delim"]} if text else {}
                    if op["chunk"]["seed"] % 2:
                        # the SFile object wrote (and closed) another file before and is re-pointed with open()
                        handle = sfile.SFile(ctx.tmpfile("decoy.rec"), "w")
                        handle.write(np.zeros(2, dtype=[("q", "i4")]), header={"decoy": True})
                        handle.close()
                        handle.open(fname, "w", **hk)
                    else:
                        handle = sfile.SFile(fname, "w", **hk)
                    handle.write(arg, **({"header": hdr} if hdr is not None else {}))
                m.reset(form, hdr, chunk)
            elif kind == "append":
                hdr = dec(op.get("header"))
                creating = not m.exists
                kw = {}
                if hdr is not None:
                    kw["header"] = hdr
                dk = {"delim": form["delim"]} if text and (creating or op.get("pass_delim")) else {}
                if not creating and op.get("pass_delim") and op.get("other_delim"):
                    # "if the file already exists ... the delim= keyword is ignored": a delim that does not
                    # describe the file (another character; any character for a binary file) changes nothing
                    dk = {"delim": "|" if form["delim"] != "|" else ";"}
                via = op["via"]
                if via == "fn":
                    sfile.write(fname, arg, append=True, **kw, **dk)
                elif via == "io":
                    esutil.io.write(fname, arg, append=True, **kw, **dk)
                else:
                    handle = sfile.SFile(fname, "r+", **dk)
                    handle.write(arg, **kw)
                    if via == "handle":
                        handle.close()
                        handle = None
                if creating:
                    m.reset(form, hdr, chunk)
                else:
                    m.chunks.append(chunk)
            elif kind == "write_again":
                handle.write(arg)
                m.chunks.append(chunk)
            elif kind == "close":
                handle.close()
                handle = None
            elif kind in ("append_bad", "write_bad"):
                bd = bad_descr(form["descr"], op["bad"])
                badchunk = _as_arg(_build(bd, text, op["chunk"]), op["chunk"])
                assert badchunk.dtype != m.chunks[0].dtype
                label = "%s (%s: %r onto %r)" % (what, op["bad"]["kind"], bd, form["descr"])
                if kind == "write_bad":
                    r = sut(handle.write, badchunk)
                    require(isinstance(r, Raised), "%s: an incompatible write on the open handle was accepted", label)
                else:
                    before = _file_bytes(fname)
                    via = op["via"]
                    if via == "fn":
                        r = sut(sfile.write, fname, badchunk, append=True)
                    elif via == "io":
                        r = sut(esutil.io.write, fname, badchunk, append=True)
                    else:
                        with sfile.SFile(fname, "r+") as sf:
                            r = sut(sf.write, badchunk)
                    after = _file_bytes(fname)
                    require(isinstance(r, Raised), "%s: the incompatible append was accepted (file grew from %d to %d "
                            "bytes)", label, len(before), len(after))
                    require(after == before, "%s: the rejected append changed the file's bytes (%d -> %d bytes)", label,
                            len(before), len(after))
            elif kind == "read_back":
                _verify(fname, m, op["via"], what)
            else:
                raise AssertionError(kind)
            if handle is None and case["verify_each"] and kind != "read_back":
                _verify(fname, m, "sfile.read", what)
        if handle is not None:
            handle.close()
            handle = None
        _verify(fname, m, "SFile.read", "end of history")
    finally:
        if handle is not None:
            handle.close()


# ----------------------------------------------------------------------------- interpreter (header-less Recfile)

def _verify_plain(fname, m, op, what):
    from esutil import recfile
    want = m.table()
    dt = want.dtype
    kw = {"delim": m.form["delim"]} if m.text else {}
    if op.get("nrows_given"):
        kw["nrows"] = want.size
    via = op.get("via", "recfile.read")
    if via == "recfile.read":
        out = recfile.read(fname, dt, **kw)
    else:
        with recfile.Recfile(fname, "r+" if via == "Recfile(r+).read" else "r", dtype=dt, **kw) as rf:
            require(rf.nrows == want.size, "%s: Recfile.nrows=%r, %d rows were written in total", what, rf.nrows, want.size)
            out = rf[:] if via == "Recfile[:]" else rf.read()
    what = "%s [%s]" % (what, via)
    _equal_tables(out, want, m.text, what)
    raw = _file_bytes(fname)
    if m.text:
        require(raw.count(b"\n") == want.size and raw.endswith(b"\n"), "%s: %d text lines for %d rows", what,
                raw.count(b"\n"), want.size)
    else:
        require(raw == want.tobytes(), "%s: the file's %d bytes are not the concatenated chunks (%d bytes)", what,
                len(raw), want.nbytes)


def check_recfile_history(case, ctx):
    from esutil import recfile
    forms = case["forms"]
    fname = _path_arg(case, ctx.tmpfile("h.bin"))
    m = Model()
    handle = None
    try:
        for i, op in enumerate(case["ops"]):
            kind = op["op"]
            what = "step %d %s" % (i, kind)
            form = forms[op["form"]] if "form" in op else m.form
            text = form["delim"] is not None
            dk = {"delim": form["delim"]} if text else {}
            if "chunk" in op:
                chunk = _build(form["descr"], text, op["chunk"])
                arg = _as_arg(chunk, op["chunk"])
            if kind == "create":
                if op["via"] == "fn":
                    recfile.write(fname, arg, **dk)
                else:
                    handle = recfile.Recfile(fname, "w", **dk)
                    handle.write(arg)
                m.reset(form, None, chunk)
            elif kind == "append":
                kw = dict(dk, dtype=chunk.dtype)
                if op.get("nrows_given"):
                    kw["nrows"] = m.total()
                if op["via"] == "fn":
                    recfile.write(fname, arg, mode="r+", **kw)
                else:
                    handle = recfile.Recfile(fname, "r+", **kw)
                    handle.write(arg)
                    if op["via"] == "handle":
                        handle.close()
                        handle = None
                m.chunks.append(chunk)
            elif kind == "write_again":
                handle.write(arg)
                m.chunks.append(chunk)
            elif kind == "close":
                handle.close()
                handle = None
            elif kind == "read_back":
                _verify_plain(fname, m, op, what)
            else:
                raise AssertionError(kind)
            if handle is None and case["verify_each"] and kind != "read_back":
                _verify_plain(fname, m, {}, what)
        if handle is not None:
            handle.close()
            handle = None
        _verify_plain(fname, m, {"via": "Recfile.read"}, "end of history")
    finally:
        if handle is not None:
            handle.close()


# ----------------------------------------------------------------------------- classes

def classify(case):
    labs = set()
    forms = case["forms"]
    ops = case["ops"]
    labs.add("steps:%s" % ("1" if len(ops) == 1 else "2-4" if len(ops) <= 4 else "5-8" if len(ops) <= 8 else "9-12"))
    labs.add("verify:each-step" if case["verify_each"] else "verify:at-reads-and-end")
    labs.add("path:" + case.get("path", "plain"))
    closed_before = False     # the file has been written and closed at least once
    exists = False
    handle = False
    over_then_append = False
    overwritten = False
    nt = False
    cur = None
    for op in ops:
        k = op["op"]
        if "form" in op:
            cur = forms[op["form"]]
        if k == "create":
            if exists:
                labs.add("op:overwrite")
                overwritten = True
                if op["form"] != 0:
                    labs.add("overwrite:other-form")
            else:
                labs.add("op:create")
            labs.add("create-via:" + op["via"])
            exists = True
            handle = op["via"] == "handle"
            if op.get("header") is not None:
                labs.add("hdr:user")
                labs |= set(x for x in H.labels(dec(op["header"])) if x in ("hdr:END", "hdr:SIZE", "hdr:nested", "hdr:newline"))
        elif k == "append":
            if not exists:
                labs.add("op:append-to-missing")
            else:
                labs.add("op:append-reopen")
                nt = True
                if overwritten:
                    over_then_append = True
                if op.get("header") is not None:
                    labs.add("append:with-header(ignored)")
                if op.get("flip"):
                    labs.add("append:text-other-byte-order")
            labs.add("append-via:" + op["via"])
            exists = True
            handle = op["via"] == "handle_keep"
        elif k == "write_again":
            labs.add("op:write-again")
            if overwritten:
                over_then_append = True
        elif k == "close":
            labs.add("op:close")
            handle = False
        elif k in ("append_bad", "write_bad"):
            labs.add("op:" + k)
            labs.add("bad:" + op["bad"]["kind"])
            nt = True
        elif k == "read_back":
            labs.add("op:read-back")
            labs.add("read-via:" + op["via"])
        if "chunk" in op:
            if op["chunk"]["n"] > 30:
                labs.add("chunk:big")
            if "target_bytes" in op["chunk"]:
                labs.add("chunk:>=64KiB" if op["chunk"]["target_bytes"] < 2 ** 20 else "chunk:>=1MiB")
            if op["chunk"]["layout"] == "strided":
                labs.add("chunk:strided")
            if op["chunk"]["layout"] in ("2d", "2d-F"):
                labs.add("chunk:2d-array-of-records")
        if cur is not None:
            labs.add("form:text" if cur["delim"] is not None else "form:binary")
            if cur["delim"] is not None:
                labs.add("delim:%r" % cur["delim"])
    if over_then_append:
        labs.add("overwrite-then-append")
        nt = True
    for f in forms:
        for e in f["descr"]:
            if len(e) == 3:
                labs.add("subarray")
            if e[1][0] == ">":
                labs.add("big-endian")
            if T.base_code(e[1])[0] == "S":
                labs.add("string")
    if nt:
        labs.add("nt:history")
    return sorted(labs)


def selftest():
    RT.selftest()
    d = [["a", "<i4"], ["b", "|S3", [2, 1]]]
    for kind in set(BAD_KINDS):
        for f in (0, 1):
            for var in (0, 1, 2):
                if kind == "order" and f == 1:
                    continue
                bd = bad_descr(d, {"kind": kind, "field": f, "variant": var})
                a = np.dtype([tuple(x[:2]) + ((tuple(x[2]),) if len(x) == 3 else ()) for x in d])
                b = np.dtype([tuple(x[:2]) + ((tuple(x[2]),) if len(x) == 3 else ()) for x in bd])
                assert a != b, (kind, f, var, bd)


SANITIZE = True        # thorough tier: reduced pass against an ASan build of the extensions
SANITIZE_SCALE = 0.03

SUBCHECKS = [
    Subcheck("history", histories, check_history, classify, quick=2700, thorough=40000),
    Subcheck("recfile_history", recfile_histories, check_recfile_history, classify, quick=1200, thorough=15000),
]
