"""C12 -- HTM matching returns exactly the pairs within the search radius.

Oracle: brute force over all pairs with the longdouble great-circle separation of
vp/oracle/sphere.py (pinned against mpmath); nothing of esutil computes an expectation.
Differential sub-checks (depth independence, Matcher vs HTM.match, file vs memory) are run in
addition to -- never instead of -- the brute-force comparison.
"""
import math
import os

import numpy as np
from hypothesis import strategies as st

from vp.api import Subcheck, must, require
from vp.gen import htmsets, sky
from vp.oracle import sphere

PROPERTY = "C12"
RULE = ("two point sets: set 1 = 1..8 explicit points (uniform, poles, seam, special, octahedron/mesh-edge "
        "families, cluster members within 1e-4..30 deg of the first) + optional bulk (5..300 points uniform / in a "
        "cap of 1e-4..30 deg incl. polar and seam caps / in a band straddling ra=0/360); set 2 = set 1 itself, or "
        "points built in longdouble relative to set-1 points: exact copies, at f*r inside, at r-+{2e-9,1e-8,1e-6 r,"
        "1e-3 r}, near misses in (r,3r], rings of equidistant points, ladders 3e-9 deg apart, unrelated points, "
        "+ optional bulk sharing the cap of set 1; radius scalar or per point from {0, 10^U(-6,log10 rmax), 180}, "
        "(radius, depth 1..13) drawn jointly so one circle covers <= 2e3 (quick) / 5e4 (thorough) leaf triangles; "
        "maxmatch in {-1,0,1,2,3..6,1000}; coordinates as f8/f4/byte-swapped/strided/list; routes HTM.match, a "
        "second depth, Matcher.match (whole and split queries on one object), file= + read_pairs. Non-trivial: "
        ">= 1 required non-self pair and >= 1 near miss (sep in (r+1e-9, 3r]); or a required non-self pair across "
        "the ra seam / with a pole inside the search circle; or a positive limit smaller than a group. "
        "Distinct = distinct case JSON."
        " The matcher sub-check also widens a cone search step by step around one position on the same Matcher object.")
RULE += (" " + 'Sub-check long: first lists of 65537..400043 points repeating <= 5 positions, second list of points at 0.1..0.85 and 1.2..3 radii from them, radius 1e-3..1e-2 deg, depth 5..9, HTM.match and Matcher, maxmatch 0/1/2, exact expected arrays from brute force. Sub-check file: one case in three writes the pair file twice to the same path.')
ASSUMPTIONS = [
    "longitudes in [0,360], latitudes in [-90,90], finite; radii in {0} u [1e-6, 180] degrees",
    "pairs with |sep - radius| <= 1e-9 deg are unconstrained (statement); reported separations are compared "
    "with the longdouble truth to 1e-9 deg; order inside a group is judged on the reported values, the choice of "
    "the k closest on the true separations with 2e-9 deg slack",
    "(radius, depth) limited so that one circle covers <= 2e3 (quick) / 5e4 (thorough) leaf triangles and "
    "n1 * triangles <= 1e6 / 5e6 (cost bound, DESIGN.md C12 B): every radius up to 180 occurs at the depths "
    "where it is affordable and every depth 1..13 with the radii affordable there",
    "points with bitwise identical coordinates must match (at d12 == 0) for every radius >= 0, radius 0 included: "
    "their separation is exactly 0, so the 1e-9 band (meant for rounding ambiguity) is not applied to them",
    "file values are compared to 16 significant digits (relative 2e-15), the precision the writer documents",
]
TECHNIQUE = ("Hypothesis-generated point configurations built constructively around the search radius; "
             "brute-force all-pairs longdouble separations as oracle; depth / object / file differentials")
LEVEL_TEXT = ("exploration: generated search against a brute-force longdouble oracle over point sets incl. poles, "
              "seam, duplicates, radius-boundary and tie families, depths 1..13, radii 0..180 deg under a stated "
              "cost cap")

TOL = 1e-9
MAXMATCH = [-1, 0, 1, 2, 3, 4, 6, 1000]


def selftest():
    sphere.selftest()


# =============================================================================================
# generator
# =============================================================================================
@st.composite
def match_cases(draw):
    depth = draw(st.sampled_from(list(range(1, 14))))
    cap = htmsets.cap()
    rmax = htmsets.max_radius(depth, cap)
    hi = math.log10(min(rmax, 177.8))

    @st.composite
    def radius_strategy(draw):
        kind = draw(st.integers(0, 15))
        if kind == 5:
            return 0.0
        if kind == 6 and rmax >= 180.0:
            return 180.0
        if kind == 7:
            return 1e-6
        if kind <= 4:
            return draw(htmsets.pow10(-6.0, hi))
        return draw(htmsets.pow10(max(-6.0, hi - 2.0), hi))

    radius_st = radius_strategy()

    # ---- set 1 -------------------------------------------------------------------------
    k1 = draw(st.sampled_from([1, 2, 4, 8]))
    first = draw(htmsets.any_point())
    csize = draw(htmsets.pow10(-4.0, 1.5))
    pts1 = [first]
    for _ in range(k1 - 1):
        if draw(st.booleans()):
            pts1.append(htmsets.neighbour(first, draw(st.floats(0.0, 360.0)),
                                          csize * math.sqrt(draw(sky.unit))))
        else:
            pts1.append(draw(htmsets.any_point()))
    perpoint = draw(st.sampled_from([False, False, True]))
    if perpoint and draw(st.sampled_from([False, False, True])):
        # per-point radii that differ by a few parts in 1e6 (numpy.allclose would call them equal): a pair between
        # two of them is decided by the radius of its own first-set point, not by a representative one (round 9)
        r0 = draw(radius_st)
        choices = [r0 * (1.0 + e) for e in draw(st.permutations([0.0, 3e-6, 8e-6]))]
        choices = [min(c, 180.0) for c in choices]
    elif perpoint:
        choices = draw(st.lists(radius_st, min_size=2, max_size=3))
    else:
        choices = [draw(radius_st)]
    rworst = max(choices)
    tri = max(1.0, htmsets.tri_count(rworst, depth))
    budget = 1e6 if cap <= 2e3 else 5e6
    bulk1 = None
    if draw(st.sampled_from([False, False, False, True])):
        bulk1 = draw(htmsets.bulk())
        bulk1["n"] = int(max(1, min(bulk1["n"], budget // tri)))
    n1 = len(pts1) + (bulk1["n"] if bulk1 else 0)
    radii = [choices[i % len(choices)] for i in range(n1)] if perpoint else None

    def rad_of(i):
        return radii[i] if perpoint else choices[0]

    # ---- set 2 -------------------------------------------------------------------------
    mode2 = draw(st.sampled_from(["self", "near", "near", "near"]))
    pts2, bulk2 = [], None
    if mode2 == "near":
        k2 = draw(st.sampled_from([1, 2, 4, 8, 16]))
        while len(pts2) < k2:
            i = draw(st.integers(0, len(pts1) - 1))
            p, r = pts1[i], rad_of(i)
            fam = draw(st.sampled_from(["dup", "in", "in", "edge-in", "edge-out", "miss", "far", "ring",
                                        "ladder"]))
            b = draw(st.floats(0.0, 360.0))
            if fam == "far":
                pts2.append(draw(htmsets.any_point()))
                continue
            if fam == "dup":
                pts2.append(list(p))
                continue
            if r <= 0.0:
                pts2.append(htmsets.neighbour(p, b, draw(htmsets.pow10(-12.0, -6.0))))
                continue
            delta = draw(st.sampled_from([2e-9, 1e-8, 1e-6 * r, 1e-3 * r]))
            if fam == "in":
                d = [r * draw(sky.unit)]
            elif fam == "edge-in":
                d = [r - delta if r - delta > 0 else 0.5 * r]
            elif fam == "edge-out":
                d = [r + delta]
            elif fam == "miss":
                d = [r * (1.0 + 2.0 * draw(sky.unit)) + 2e-9]
            elif fam == "ring":
                base = r * draw(sky.unit)
                m = draw(st.integers(2, 4))
                for _ in range(m):
                    pts2.append(htmsets.neighbour(p, draw(st.floats(0.0, 360.0)), min(base, 180.0)))
                continue
            else:   # ladder: rungs 3e-9 deg apart
                base = 0.9 * r * draw(sky.unit)
                m = draw(st.integers(2, 4))
                same = draw(st.booleans())
                for q in range(m):
                    bb = b if same else draw(st.floats(0.0, 360.0))
                    pts2.append(htmsets.neighbour(p, bb, min(base + 3e-9 * q, 180.0)))
                continue
            pts2.append(htmsets.neighbour(p, b, min(d[0], 180.0)))
        if draw(st.sampled_from([False, False, True])):
            if bulk1 is not None and draw(st.booleans()):
                bulk2 = dict(bulk1)
                if draw(st.booleans()):
                    bulk2["seed"] = draw(st.integers(0, 2 ** 32 - 1))
                bulk2["n"] = draw(st.sampled_from([5, 20, 60, 150, 300]))
            else:
                bulk2 = draw(htmsets.bulk())
                if bulk2["kind"] == "cap" and draw(st.booleans()):
                    bulk2["centre"] = list(first)
                    bulk2["cap"] = max(1e-4, min(30.0, 2.0 * rworst)) if rworst > 0 else bulk2["cap"]
    return {"depth": depth, "depth2": draw(st.sampled_from(list(range(1, 14)))),
            "set1": {"pts": pts1, "bulk": bulk1},
            "set2": "self" if mode2 == "self" else {"pts": pts2, "bulk": bulk2},
            "radius": radii if perpoint else choices[0],
            "rkind": draw(st.sampled_from(["float", "len1", "list", "f4"])) if not perpoint
            else draw(st.sampled_from(["array", "list", "f4", "strided", "swapped"])),
            "maxmatch": draw(st.sampled_from(MAXMATCH)),
            "container": draw(st.sampled_from(htmsets.CONTAINERS)),
            "split": draw(st.integers(0, n1))}


# =============================================================================================
# oracle
# =============================================================================================
class Setup(object):
    """Arguments for esutil and the brute-force truth for one case."""

    def __init__(self, case):
        kind = case["container"]
        lon1, lat1 = htmsets.all_points(case["set1"])
        self.ra1_c, self.ra1 = htmsets.as_container(lon1, kind)
        self.dec1_c, self.dec1 = htmsets.as_container(lat1, kind)
        self.selfmatch = case["set2"] == "self"
        if self.selfmatch:
            self.ra2_c, self.ra2, self.dec2_c, self.dec2 = self.ra1_c, self.ra1, self.dec1_c, self.dec1
        else:
            lon2, lat2 = htmsets.all_points(case["set2"])
            self.ra2_c, self.ra2 = htmsets.as_container(lon2, kind)
            self.dec2_c, self.dec2 = htmsets.as_container(lat2, kind)
        self.n1, self.n2 = self.ra1.size, self.ra2.size
        r = case["radius"]
        rk = case["rkind"]
        if isinstance(r, list):
            arr = np.array(r, dtype="f8")
            if rk == "f4":
                self.rad_c = arr.astype("f4")
                self.rad = self.rad_c.astype("f8")
            elif rk in ("strided", "swapped"):
                # the per-point radius is an array argument like the coordinates (a catalogue column)
                self.rad_c, self.rad = htmsets.as_container(arr, rk)
            else:
                self.rad_c = arr.tolist() if rk == "list" else arr
                self.rad = arr
        else:
            r = float(r)
            if rk == "f4":
                self.rad_c = np.float32(r)
                r = float(self.rad_c)
            elif rk == "len1":
                self.rad_c = np.array([r])
            elif rk == "list":
                self.rad_c = [r]
            else:
                self.rad_c = r
            self.rad = np.full(self.n1, r)
        self.sep = sphere.sep(self.ra1[:, None], self.dec1[:, None], self.ra2[None, :], self.dec2[None, :])
        rr = self.rad[:, None]
        self.req = np.asarray(self.sep < rr - TOL)
        self.forb = np.asarray(self.sep > rr + TOL)
        self.same = (self.ra1[:, None] == self.ra2[None, :]) & (self.dec1[:, None] == self.dec2[None, :])
        # "identical points match at zero distance": bitwise identical coordinates are exactly 0 apart,
        # there is no rounding the 1e-9 band would have to absorb -- required for every radius >= 0
        self.req = self.req | self.same
        self.maxmatch = int(case["maxmatch"])

    def subset(self, lo, hi):
        """Container arguments for the query points lo:hi (for split Matcher queries)."""
        def cut(c):
            return c[lo:hi]
        rad = self.rad_c
        if isinstance(rad, (list, np.ndarray)) and np.size(rad) == self.n1 and self.n1 > 1:
            rad = rad[lo:hi]
        return cut(self.ra1_c), cut(self.dec1_c), rad


def verify(su, res, what, d12_tol=TOL):
    """The full brute-force comparison of one (m1, m2, d12) result."""
    require(isinstance(res, tuple) and len(res) == 3, "%s: expected (m1,m2,d12), got %r", what, type(res))
    m1, m2, d12 = res
    for nm, a, dt in (("m1", m1, "i8"), ("m2", m2, "i8"), ("d12", d12, "f8")):
        require(isinstance(a, np.ndarray) and a.ndim == 1 and a.dtype == np.dtype(dt),
                "%s: %s is %r / %r, expected 1-d %s", what, nm, type(a), getattr(a, "dtype", None), dt)
    require(m1.size == m2.size == d12.size, "%s: result arrays differ in length", what)
    n = m1.size
    if n:
        require(0 <= int(m1.min()) and int(m1.max()) < su.n1 and 0 <= int(m2.min()) and int(m2.max()) < su.n2,
                "%s: index out of range", what)
    got = np.zeros((su.n1, su.n2), dtype=int)
    np.add.at(got, (m1, m2), 1)
    i, j = np.unravel_index(int(np.argmax(got)), got.shape) if got.size else (0, 0)
    require(got.size == 0 or got[i, j] <= 1, "%s: pair (%d,%d) returned %d times", what, i, j,
            got[i, j] if got.size else 0)
    got = got.astype(bool)
    require(bool(np.all(np.diff(m1) >= 0)), "%s: m1 is not grouped in input order: %r", what, m1.tolist()[:40])
    bad = got & su.forb
    if bad.any():
        i, j = np.argwhere(bad)[0]
        require(False, "%s: extra pair (%d,%d): separation %.15g deg > radius %.15g", what, i, j,
                float(su.sep[i, j]), su.rad[i])
    true = np.asarray(su.sep[m1, m2])
    err = np.abs(np.asarray(d12, dtype=sphere.LD) - true) if n else np.zeros(0)
    if n:
        q = int(np.argmax(err))
        require(float(err[q]) <= d12_tol, "%s: pair (%d,%d) reported at %.17g deg, true separation %.17g deg "
                "(error %.3g)", what, m1[q], m2[q], d12[q], float(true[q]), float(err[q]))
        samegrp = np.diff(m1) == 0
        dec = samegrp & (np.diff(d12) < 0)
        if dec.any():
            q = int(np.nonzero(dec)[0][0])
            require(False, "%s: group %d not sorted by separation: %.17g before %.17g", what, m1[q], d12[q],
                    d12[q + 1])
        z = su.same[m1, m2] & (d12 != 0.0)
        if z.any():
            q = int(np.nonzero(z)[0][0])
            require(False, "%s: identical points (%d,%d) reported at %.3g deg", what, m1[q], m2[q], d12[q])
    k = su.maxmatch
    nreq = su.req.sum(axis=1)
    nmax = (~su.forb).sum(axis=1)
    ngot = got.sum(axis=1)
    if k <= 0:
        miss = su.req & ~got
        if miss.any():
            i, j = np.argwhere(miss)[0]
            require(False, "%s: missing pair (%d,%d): separation %.15g deg < radius %.15g (maxmatch=%d)", what, i,
                    j, float(su.sep[i, j]), su.rad[i], k)
    else:
        lo, hi = np.minimum(k, nreq), np.minimum(k, nmax)
        badn = (ngot < lo) | (ngot > hi)
        if badn.any():
            i = int(np.nonzero(badn)[0][0])
            require(False, "%s: point %d has %d matches; with maxmatch=%d and %d..%d candidates within the radius "
                    "it must have %d..%d", what, i, ngot[i], k, nreq[i], nmax[i], lo[i], hi[i])
        dropped = su.req & ~got
        for i in np.nonzero(dropped.any(axis=1))[0]:
            nearest_dropped = su.sep[i][dropped[i]].min()
            kept = su.sep[i][got[i]]
            if kept.size and float(kept.max() - nearest_dropped) > 2 * TOL:
                jd = int(np.nonzero(dropped[i] & (su.sep[i] == nearest_dropped))[0][0])
                jk = int(np.nonzero(got[i] & (su.sep[i] == kept.max()))[0][0])
                require(False, "%s: maxmatch=%d kept pair (%d,%d) at %.15g deg but dropped the closer (%d,%d) at "
                        "%.15g deg", what, k, i, jk, float(kept.max()), i, jd, float(nearest_dropped))
    return got


def _d12_tol(ctx):
    # DESIGN.md C12: while the acos distance (item 18) is an open finding the reported separation
    # is only held to the conditioning limit of that formula
    return 2e-6 if ctx.finding_open("gcirc-acos") else TOL


# =============================================================================================
# sub-checks
# =============================================================================================
def check_match(case, ctx):
    import esutil
    su = Setup(case)
    h = esutil.htm.HTM(int(case["depth"]))
    res = must(h.match, su.ra1_c, su.dec1_c, su.ra2_c, su.dec2_c, su.rad_c, maxmatch=su.maxmatch)
    verify(su, res, "HTM(%d).match" % case["depth"], _d12_tol(ctx))
    ctx.count("pairs", int(res[0].size))
    if su.maxmatch == 1 and isinstance(su.rad_c, float):
        # maxmatch defaults to 1
        res1 = must(h.match, su.ra1_c, su.dec1_c, su.ra2_c, su.dec2_c, su.rad_c)
        require(all(np.array_equal(a, b) for a, b in zip(res, res1)), "match() default differs from maxmatch=1")
    if (su.maxmatch <= 0 and not su.selfmatch and su.n2 >= 2 and isinstance(su.ra2_c, np.ndarray)
            and isinstance(su.dec2_c, np.ndarray)):
        # the caller re-orders his second catalogue in place and matches again on the same HTM object with the
        # same array objects: pair (i, j) must become (i, n2-1-j)
        g1 = np.zeros((su.n1, su.n2), dtype=bool)
        g1[res[0], res[1]] = True
        su.ra2_c[...] = su.ra2_c[::-1].copy()
        su.dec2_c[...] = su.dec2_c[::-1].copy()
        res2 = must(h.match, su.ra1_c, su.dec1_c, su.ra2_c, su.dec2_c, su.rad_c, maxmatch=su.maxmatch)
        g2 = np.zeros((su.n1, su.n2), dtype=bool)
        g2[res2[0], res2[1]] = True
        constrained = (su.req | su.forb)[:, ::-1]
        diff = (g2 != g1[:, ::-1]) & constrained
        if diff.any():
            i, j = np.argwhere(diff)[0]
            require(False, "after the second set was reversed in place (same array objects, same HTM object) pair "
                    "(%d,%d) is %s, but the points now at these positions are %.12g deg apart (radius %.12g)",
                    i, j, "returned" if g2[i, j] else "missing", float(su.sep[i, su.n2 - 1 - j]), su.rad[i])


def check_depths(case, ctx):
    import esutil
    su = Setup(case)
    out = []
    rworst = float(su.rad.max())
    budget = 1e6 if ctx.tier == "quick" else 5e6
    cands = [d for d in range(1, 14) if d != int(case["depth"]) and
             htmsets.tri_count(rworst, d) <= htmsets.cap(*((2e3, 2e3) if ctx.tier == "quick" else (5e4, 5e4)))
             and htmsets.tri_count(rworst, d) * su.n1 <= budget]
    d2 = cands[int(case["depth2"]) % len(cands)] if cands else int(case["depth"])
    for d in (int(case["depth"]), d2):
        res = must(esutil.htm.HTM(d).match, su.ra1_c, su.dec1_c, su.ra2_c, su.dec2_c, su.rad_c,
                   maxmatch=su.maxmatch)
        out.append((d, verify(su, res, "HTM(%d).match" % d, _d12_tol(ctx)), res))
    (da, ga, ra), (db, gb, rb) = out
    if da == db:
        ctx.count("same-depth")
        return
    constrained = su.req | su.forb
    if su.maxmatch <= 0:
        diff = (ga != gb) & constrained
        if diff.any():
            i, j = np.argwhere(diff)[0]
            require(False, "pair (%d,%d) (sep %.15g, radius %.15g) is matched at depth %d but not at depth %d",
                    i, j, float(su.sep[i, j]), su.rad[i], da if ga[i, j] else db, db if ga[i, j] else da)
    # a pair reported at both depths has the same separation, whatever the depth
    common = ga & gb
    if common.any():
        da_map = dict(zip(zip(ra[0].tolist(), ra[1].tolist()), ra[2].tolist()))
        for a, b, dd in zip(rb[0].tolist(), rb[1].tolist(), rb[2].tolist()):
            if (a, b) in da_map:
                require(da_map[(a, b)] == dd, "pair (%d,%d) reported at %.17g deg at depth %d and %.17g at depth "
                        "%d", a, b, da_map[(a, b)], da, dd, db)


def check_matcher(case, ctx):
    import esutil
    su = Setup(case)
    d = int(case["depth"])
    ref = must(esutil.htm.HTM(d).match, su.ra1_c, su.dec1_c, su.ra2_c, su.dec2_c, su.rad_c, maxmatch=su.maxmatch)
    gref = verify(su, ref, "HTM(%d).match" % d, _d12_tol(ctx))
    mobj = must(esutil.htm.Matcher, d, su.ra2_c, su.dec2_c)
    require(must(mobj.get_depth) == d, "Matcher.get_depth() != %d", d)
    res = must(mobj.match, su.ra1_c, su.dec1_c, su.rad_c, maxmatch=su.maxmatch)
    g = verify(su, res, "Matcher(%d).match" % d, _d12_tol(ctx))
    constrained = su.req | su.forb
    diff = (g != gref) & constrained if su.maxmatch <= 0 else np.zeros_like(g)
    if diff.any():
        i, j = np.argwhere(diff)[0]
        require(False, "pair (%d,%d) differs between HTM.match and Matcher.match", i, j)
    require(all(np.array_equal(a, b) for a, b in zip(ref, res)),
            "Matcher.match and HTM.match return different arrays for the same input")
    # the same object queried again in two pieces: results concatenate
    s = int(case["split"])
    parts = []
    for lo, hi in ((0, s), (s, su.n1)):
        if hi <= lo:
            continue
        a, b, r = su.subset(lo, hi)
        pr = must(mobj.match, a, b, r, maxmatch=su.maxmatch)
        require(isinstance(pr, tuple) and len(pr) == 3, "Matcher.match returned %r", type(pr))
        parts.append((pr[0] + lo, pr[1], pr[2]))
    cat = tuple(np.concatenate([p[k] for p in parts]) for k in range(3))
    require(all(np.array_equal(a, b) for a, b in zip(cat, res)),
            "Matcher re-used for the query split at %d gives different pairs than the single query", s)
    if isinstance(su.ra2_c, np.ndarray) and isinstance(su.dec2_c, np.ndarray) and not su.selfmatch:
        # the catalogue arrays handed to the constructor are the caller's: he may reuse them as buffers; the
        # Matcher answers for the points it was built from
        keep = (su.ra2_c.copy(), su.dec2_c.copy())
        su.ra2_c[...] = (su.ra2_c + 17.0) % 360.0
        su.dec2_c[...] = -su.dec2_c
        again = must(mobj.match, su.ra1_c, su.dec1_c, su.rad_c, maxmatch=su.maxmatch)
        su.ra2_c[...] = keep[0]
        su.dec2_c[...] = keep[1]
        require(all(np.array_equal(a, b) for a, b in zip(again, res)), "after the arrays the Matcher was built from were "
                "overwritten by the caller, Matcher.match returns other pairs than before (%d vs %d)", again[0].size,
                res[0].size)
    # a cone search widened step by step around one position on the same object (scalar radii, the position the
    # first point): each call is judged on its own against the brute-force separations
    i0 = 0
    p_ra, p_dec = float(su.ra1[i0]), float(su.dec1[i0])
    # (the object last searched somewhere else, so the first cone is computed afresh)
    must(mobj.match, (p_ra + 180.0) % 360.0, -p_dec, 1e-3, maxmatch=-1)
    rbig = float(su.rad[i0])
    seps = np.asarray(su.sep[i0], dtype="f8")
    same0 = np.asarray(su.same[i0])
    for frac in (0.25, 0.5, 1.0):
        r = rbig * frac
        pr = must(mobj.match, p_ra, p_dec, r, maxmatch=-1)
        require(isinstance(pr, tuple) and len(pr) == 3, "Matcher.match returned %r", type(pr))
        got = set(np.asarray(pr[1]).tolist())
        need = set(np.nonzero((seps < r - TOL) | (same0 & (r >= 0)))[0].tolist())
        forb = set(np.nonzero((seps > r + TOL) & ~same0)[0].tolist())
        require(need <= got, "Matcher.match around (%r, %r) with radius %r (after searches with smaller radii on the "
                "same object) misses points %r of the second set", p_ra, p_dec, r, sorted(need - got)[:5])
        require(not (got & forb), "Matcher.match around (%r, %r) with radius %r returns points %r that lie outside",
                p_ra, p_dec, r, sorted(got & forb)[:5])


def check_file(case, ctx):
    import esutil
    su = Setup(case)
    d = int(case["depth"])
    use_matcher = bool(case["split"] % 2)
    fname = ctx.tmpfile("pairs.txt")
    again = case["split"] % 3 == 0       # the pair file is written twice to the same path: it holds the last result
    if again:
        ctx.count("file-written-twice")
    if use_matcher:
        mobj = must(esutil.htm.Matcher, d, su.ra2_c, su.dec2_c)
        mem = must(mobj.match, su.ra1_c, su.dec1_c, su.rad_c, maxmatch=su.maxmatch)
        if again:
            must(mobj.match, su.ra1_c, su.dec1_c, su.rad_c, maxmatch=1, file=fname)
        cnt = must(mobj.match, su.ra1_c, su.dec1_c, su.rad_c, maxmatch=su.maxmatch, file=fname)
    else:
        h = esutil.htm.HTM(d)
        mem = must(h.match, su.ra1_c, su.dec1_c, su.ra2_c, su.dec2_c, su.rad_c, maxmatch=su.maxmatch)
        if again:
            must(h.match, su.ra1_c, su.dec1_c, su.ra2_c, su.dec2_c, su.rad_c, maxmatch=1, file=fname)
        cnt = must(h.match, su.ra1_c, su.dec1_c, su.ra2_c, su.dec2_c, su.rad_c, maxmatch=su.maxmatch,
                   file=fname)
    verify(su, mem, "match (memory)", _d12_tol(ctx))
    require(isinstance(cnt, (int, np.integer)) and not isinstance(cnt, bool),
            "match(file=) must return the pair count, got %r", type(cnt))
    require(int(cnt) == mem[0].size, "match(file=) returned count %d, the in-memory call found %d pairs",
            int(cnt), mem[0].size)
    require(os.path.exists(fname), "match(file=) did not create the file")
    if int(cnt) == 0:
        ctx.count("empty-file")
    if int(cnt) == 0 and ctx.finding_open("read-pairs-empty"):
        ctx.count("relaxed-empty-file")
        return
    data = must(esutil.htm.read_pairs, fname)
    require(isinstance(data, np.ndarray) and data.dtype.names == ("i1", "i2", "d12") and data.ndim == 1,
            "read_pairs returned %r", getattr(data, "dtype", type(data)))
    require(data.size == int(cnt), "read_pairs returned %d rows for a file of %d pairs", data.size, int(cnt))
    require(data["i1"].dtype == np.dtype("i8") and data["d12"].dtype == np.dtype("f8"), "read_pairs dtypes")
    require(np.array_equal(data["i1"], mem[0]) and np.array_equal(data["i2"], mem[1]),
            "pairs read from the file differ from the in-memory result")
    if data.size:
        rel = np.abs(data["d12"] - mem[2]) / np.where(mem[2] != 0, np.abs(mem[2]), 1.0)
        q = int(np.argmax(rel))
        require(float(rel[q]) <= 2e-15, "file separation %.17g differs from the in-memory %.17g beyond 16 digits",
                data["d12"][q], mem[2][q])
    if not use_matcher:
        data2 = must(esutil.htm.HTM(d).read, fname)
        require(np.array_equal(data2, data), "HTM.read and read_pairs disagree")


# ---------------------------------------------------------------------------------------------
# long first lists (more than 2^16 .. 4e5 query points)
# ---------------------------------------------------------------------------------------------
LONG_N1 = [65537, 131073, 200001, 250001, 262145, 400003]


@st.composite
def long_cases(draw):
    k = draw(st.integers(1, 5))
    base = [draw(htmsets.any_point()) for _ in range(k)]
    r = draw(htmsets.pow10(-3.0, -2.0))
    # second list: around every base point a few points clearly inside (distinct fractions of r) and outside
    near = []
    for b in base:
        fr = draw(st.lists(st.sampled_from([0.1, 0.25, 0.4, 0.55, 0.7, 0.85]), min_size=0, max_size=3, unique=True))
        out = draw(st.lists(st.sampled_from([1.2, 1.5, 3.0]), min_size=0, max_size=2, unique=True))
        near.append({"in": fr, "out": out, "bearing": draw(st.floats(0.0, 360.0))})
    return {"depth": draw(st.sampled_from([5, 6, 7, 8, 9])), "base": base, "radius": r, "near": near,
            "n1": draw(st.sampled_from(LONG_N1)) + draw(st.integers(0, 40)),
            "api": draw(st.sampled_from(["HTM.match", "HTM.match", "Matcher"])),
            "maxmatch": draw(st.sampled_from([0, 0, 1, 2]))}


def check_long(case, ctx):
    import esutil
    base = np.array(case["base"], dtype="f8").reshape(-1, 2)
    k = base.shape[0]
    r = float(case["radius"])
    lon2, lat2 = [], []
    for b, nb in zip(case["base"], case["near"]):
        for i, f in enumerate(list(nb["in"]) + list(nb["out"])):
            q = htmsets.neighbour(b, (nb["bearing"] + 97.0 * i) % 360.0, f * r)
            lon2.append(q[0])
            lat2.append(q[1])
    if not lon2:
        lon2, lat2 = [base[0, 0]], [base[0, 1]]
    ra2, dec2 = np.array(lon2), np.array(lat2)
    n1 = int(case["n1"])
    ra1, dec1 = np.resize(base[:, 0], n1), np.resize(base[:, 1], n1)
    # truth for the k distinct query points
    sep = np.asarray(sphere.sep(base[:, 0][:, None], base[:, 1][:, None], ra2[None, :], dec2[None, :]))
    inside, amb = sep < r - TOL, np.abs(sep - r) <= TOL
    if amb.any():
        ctx.count("undecidable-at-radius")
        return
    mm = int(case["maxmatch"])
    per = []
    for b in range(k):
        js = np.nonzero(inside[b])[0]
        js = js[np.argsort(sep[b][js].astype("f8"), kind="stable")]
        d = sep[b][js].astype("f8")
        if d.size > 1 and np.min(np.diff(d)) < 10 * TOL:
            ctx.count("undecidable-order")
            return
        per.append(js[:mm] if mm > 0 else js)
    d = int(case["depth"])
    if case["api"] == "Matcher":
        res = must(must(esutil.htm.Matcher, d, ra2, dec2).match, ra1, dec1, r, maxmatch=mm)
    else:
        res = must(esutil.htm.HTM(d).match, ra1, dec1, ra2, dec2, r, maxmatch=mm)
    what = "%s with %d query points" % (case["api"], n1)
    require(isinstance(res, tuple) and len(res) == 3, "%s: expected (m1,m2,d12), got %r", what, type(res))
    m1, m2, d12 = [np.asarray(a) for a in res]
    cnt = np.array([len(p) for p in per], dtype="i8")
    reps = np.resize(cnt, n1)
    exp1 = np.repeat(np.arange(n1, dtype="i8"), reps)
    require(m1.size == exp1.size, "%s: %d pairs returned, brute force finds %d", what, m1.size, exp1.size)
    if exp1.size == 0:
        return
    block = np.concatenate([np.asarray(p, dtype="i8") for p in per]) if cnt.sum() else np.zeros(0, "i8")
    full, rest = divmod(n1, k)
    exp2 = np.concatenate([np.tile(block, full)] + [np.asarray(p, dtype="i8") for p in per[:rest]])
    bad = np.nonzero((m1 != exp1) | (m2 != exp2))[0]
    if bad.size:
        q = int(bad[0])
        require(False, "%s: pair #%d is (%d,%d), brute force (grouped by query point in input order, sorted by "
                "separation) has (%d,%d)", what, q, m1[q], m2[q], exp1[q], exp2[q])
    true = sep[exp1 % k, exp2].astype("f8")
    err = np.abs(d12 - true)
    q = int(np.argmax(err))
    require(float(err[q]) <= _d12_tol(ctx), "%s: pair (%d,%d) reported at %.17g deg, true separation %.17g deg", what,
            m1[q], m2[q], d12[q], true[q])


def classify_long(case):
    n1 = case["n1"]
    labs = ["api:" + case["api"], "maxmatch:%d" % case["maxmatch"], "depth:%d" % case["depth"],
            "n1:%s" % (">2^16" if n1 < 131072 else ">2^17" if n1 < 200000 else ">=200000" if n1 < 262144 else ">2^18"),
            "nt:long-first-list"]
    if any(nb["in"] for nb in case["near"]):
        labs.append("has-matches")
    return labs


def classify(case):
    su = Setup(case)
    labs = ["depth:%s" % (case["depth"] if case["depth"] < 4 else "4-8" if case["depth"] <= 8 else "9-13"),
            "maxmatch:%d" % case["maxmatch"], "container:" + case["container"],
            "radius:" + ("perpoint" if isinstance(case["radius"], list) else "scalar"),
            "set2:" + ("self" if su.selfmatch else "other")]
    if isinstance(case["radius"], list) and len(set(case["radius"])) > 1 and min(case["radius"]) > 0 \
            and max(case["radius"]) / min(case["radius"]) - 1.0 < 1e-5:
        labs.append("radius:perpoint-nearly-equal")
    rmaxv = float(su.rad.max())
    labs.append("rmax:" + ("0" if rmaxv == 0 else "180" if rmaxv == 180 else "1e%d" % math.floor(math.log10(rmaxv))))
    nonself = su.req.copy()
    if su.selfmatch:
        np.fill_diagonal(nonself, False)
    miss = su.forb & np.asarray(su.sep <= 3 * su.rad[:, None])
    if nonself.any():
        labs.append("has-required-pair")
    if nonself.any() and miss.any():
        labs.append("nt:pairs+near-miss")
    if nonself.any():
        i, j = np.nonzero(nonself)
        if (np.abs(su.ra1[i] - su.ra2[j]) > 180.0).any():
            labs.append("nt:seam")
        if (np.abs(su.dec1[i]) + su.rad[i] > 90.0).any():
            labs.append("nt:pole")
    k = su.maxmatch
    if k > 0 and (su.req.sum(axis=1) > k).any():
        labs.append("nt:limit<group")
    free = ~(su.req | su.forb)
    if free.any():
        labs.append("has-band-pair")
    if (su.same & ~np.eye(su.n1, su.n2, dtype=bool)).any() if su.selfmatch else su.same.any():
        labs.append("duplicates")
    if su.n1 > 20 or su.n2 > 20:
        labs.append("bulk")
    if not su.req.any() and not su.same.any():
        labs.append("no-match")
    return labs


SANITIZE = True        # thorough tier: reduced pass against an ASan build of the extensions
SANITIZE_SCALE = 0.03

SUBCHECKS = [
    Subcheck("match", match_cases, check_match, classify, quick=2600, thorough=120000),
    Subcheck("depths", match_cases, check_depths, classify, quick=1200, thorough=60000),
    Subcheck("matcher", match_cases, check_matcher, classify, quick=1200, thorough=60000),
    Subcheck("file", match_cases, check_file, classify, quick=1200, thorough=60000),
    Subcheck("long", long_cases, check_long, classify_long, quick=16, thorough=320),
]
