"""C11 -- cosmological distances equal their Hogg (1999) definitions.

Oracle (nothing of esutil is used to compute an expectation, with one stated exception for
the unit constant of sigmacritinv, see `check_lensing`):

* truth: scipy.integrate.quad(epsabs=0, epsrel=1e-13) of 1/E(z) built from the parameters
  the object *reports*, combined by the closed formulas of Hogg (1999);
* the documented algorithm evaluated independently: numpy `leggauss(5)` for every single
  integral and `leggauss(10)` over `leggauss(5)` for the comoving volume;
* `|impl - truth| <= 1.5 |GL - truth| + s * scale` (DESIGN.md C11) where `scale` is
  max(|truth|, |I dtruth/dI|) (the conditioning of the quantity with respect to the integral
  of 1/E, which is where the 4e-11 convergence threshold of the library's node solver enters);
* the reported parameters themselves are compared with the documented normalisation of the
  constructor arguments in a separate sub-check.
"""
import copy as _copy
import math
import pickle

import numpy as np
from hypothesis import strategies as st

from vp.api import Raised, Subcheck, must, require, sut

PROPERTY = "C11"
RULE = ("cosmologies: omega_m in [1e-3,1.5] (plus 0.3, 1, 1.5), flat (omega_k absent or 0.0, any omega_l "
        "argument, which must be ignored) or curved omega_k in [-0.5,0.5]\\{0} with flat=True/False and "
        "omega_l = U[0,1.2] raised where necessary so that E^2(z) >= 0.05 on [0,5]; H0 in [30,120] and/or h; "
        "redshifts in [0,5] (uniform, <=1, log-small, the end points, equal pairs); scalar arguments as "
        "Python float/int, numpy f4/f8/i8 scalars; array arguments of length 1..50 as f8, f4, i8, list, "
        "list of ints, positive/negative strided views, byte-swapped; mismatched lengths; objects from the "
        "constructor, copy(), copy.copy, copy.deepcopy, pickle. Non-trivial: a curved cosmology, or "
        "zmax > 1, or an array-valued call whose array is not a contiguous native f8 array. "
        "Distinct = distinct case JSON.")
RULE += (" " + 'Also (copies): the object is used before it is copied (distances evaluated, extract_parms asked about other parameters).')
ASSUMPTIONS = [
    "E^2(z) = om(1+z)^3 + ok(1+z)^2 + ol is kept >= 0.05 on [0,5] by construction (the statement speaks of "
    "cosmologies; where E^2 <= 0 the distances are undefined)",
    "flat=False is only generated together with an explicit omega_k (flat=False without omega_k is "
    "silently treated as flat by the code; the docstring does not say what it means)",
    "arrays are one-dimensional with length >= 1",
    "the unit constant of sigmacritinv is only demanded to equal 4 pi G Msun/c^2 (pc^2/Msun per Mpc, "
    "CODATA/IAU) within 5e-4; the geometry is checked to Gauss-Legendre accuracy through ratios of calls "
    "on the same object",
    "distance modulus is checked for z > 0 only (log of zero at z = 0)",
    "redshifts are exactly 0 or >= 1e-12 and |omega_k| is exactly 0 or >= 1e-8: far below that (z < 1e-150, "
    "omega_k ~ 1e-248, z = 5e-324) intermediate products underflow and sigmacritinv(0, z) evaluates 0/0 = nan; "
    "those magnitudes are not cosmologies or redshifts in any realistic sense and are left out",
]
TECHNIQUE = ("property-based search (Hypothesis) over cosmologies, redshift pairs and argument shapes; truth "
             "by adaptive quadrature (QUADPACK, epsrel 1e-13) of Hogg's definitions, allowance derived from "
             "an independent Gauss-Legendre evaluation; exact identities; scalar/array and copy "
             "differentials")
LEVEL_TEXT = ("exploration: every generated cosmology/redshift/shape combination satisfied the definition "
              "within 1.5x the documented Gauss-Legendre truncation error (+1e-10 relative for the node "
              "solver's threshold, 5e-10 for V), the identities to 4 ulp, and the array/copy differentials "
              "bit for bit")

CLIGHT = 2.99792458e5
# 4 pi G Msun / c^2 in pc, times 1e6 pc/Mpc  (IAU 2015 nominal GM_sun, CODATA c, IAU parsec)
_GMSUN = 1.3271244e20          # m^3 s^-2
_C_SI = 299792458.0            # m s^-1
_PC = 648000.0 / math.pi * 149597870700.0   # m
K_CODATA = 4.0 * math.pi * _GMSUN / _C_SI ** 2 / _PC * 1.0e6

S_SINGLE = 1e-10
S_VOLUME = 5e-10
S_LENS = 2e-10       # three integrals + the calibration call of the unit constant
EMIN = 0.05
ZMIN = 1e-12      # redshifts are exactly 0 or >= ZMIN
OKMIN = 1e-8      # |omega_k| is exactly 0 (flat) or >= OKMIN

X5, W5 = np.polynomial.legendre.leggauss(5)
X10, W10 = np.polynomial.legendre.leggauss(10)
X5, W5, X10, W10 = X5.tolist(), W5.tolist(), X10.tolist(), W10.tolist()


# --------------------------------------------------------------------------------------
# generators
# --------------------------------------------------------------------------------------
def _g_min(om, ok):
    """min over a in [1,6] of om a^3 + ok a^2."""
    cands = [1.0, 6.0]
    if ok < 0:
        a = -2.0 * ok / (3.0 * om)
        if 1.0 < a < 6.0:
            cands.append(a)
    return min(om * a ** 3 + ok * a ** 2 for a in cands)


_om = st.one_of(st.floats(1e-3, 1.5), st.floats(0.1, 0.5), st.sampled_from([0.3, 1.0, 1.5, 0.25, 1e-3]))
_ok = st.one_of(st.floats(-0.5, 0.5), st.floats(-0.5, -0.05), st.floats(0.05, 0.5),
                st.sampled_from([0.5, -0.5, 0.1, -0.1, 1e-4, -1e-4]))


@st.composite
def cosmologies(draw, curved=None):
    """Constructor keyword arguments (JSON-able dict).  curved: None = either."""
    kw = {}
    hub = draw(st.sampled_from(["default", "H0", "H0", "h", "both"]))
    if hub in ("H0", "both"):
        kw["H0"] = draw(st.one_of(st.floats(30.0, 120.0), st.sampled_from([30.0, 70.0, 120.0, 67.4])))
    if hub in ("h", "both"):
        kw["h"] = draw(st.one_of(st.floats(0.3, 1.2), st.sampled_from([0.7, 1.0, 0.3, 1.2])))
    om = draw(_om)
    kw["omega_m"] = om
    is_curved = draw(st.booleans()) if curved is None else curved
    if is_curved:
        ok = draw(_ok)
        if abs(ok) < OKMIN:
            ok = 0.25
        kw["omega_k"] = ok
        ol = draw(st.one_of(st.floats(0.0, 1.2), st.just(1.0 - om - ok)))
        need = EMIN - _g_min(om, ok)
        if ol < need:
            ol = need + draw(st.floats(0.0, 1.2))
        kw["omega_l"] = ol
        f = draw(st.sampled_from(["absent", True, False]))
        if f != "absent":
            kw["flat"] = f
    else:
        style = draw(st.sampled_from(["plain", "ok0", "okNone", "ol-given", "flatTrue", "ok0-flatFalse"]))
        if style == "ok0":
            kw["omega_k"] = 0.0
        elif style == "okNone":
            kw["omega_k"] = None
        elif style == "ol-given":
            kw["omega_l"] = draw(st.floats(0.0, 1.2))
        elif style == "flatTrue":
            kw["flat"] = True
            kw["omega_l"] = draw(st.floats(0.0, 1.2))
        elif style == "ok0-flatFalse":
            kw["omega_k"] = 0.0
            kw["flat"] = False
            kw["omega_l"] = draw(st.floats(0.0, 1.2))
    return kw


@st.composite
def concordance(draw):
    kw = {"omega_m": draw(st.floats(0.2, 0.4))}
    if draw(st.booleans()):
        kw["H0"] = draw(st.floats(30.0, 120.0))
    if draw(st.booleans()):
        ok = draw(st.floats(-0.05, 0.05))
        if abs(ok) < OKMIN:
            ok = 0.01
        kw["omega_k"] = ok
        kw["omega_l"] = 1.0 - kw["omega_m"] - ok
    return kw


_z = st.one_of(st.floats(0.0, 5.0), st.floats(0.0, 1.0), st.floats(1.0, 5.0),
               st.floats(-8.0, 0.0).map(lambda e: 10.0 ** e),
               st.sampled_from([0.0, 5.0, 1.0, 0.5, 2.0])).map(lambda z: 0.0 if z < ZMIN else z)


@st.composite
def zpair(draw):
    a, b = draw(_z), draw(_z)
    kind = draw(st.sampled_from(["any", "any", "any", "from0", "equal", "close"]))
    if kind == "from0":
        a = 0.0
    elif kind == "equal":
        a = b
    elif kind == "close":
        a = b * (1.0 - draw(st.floats(-9.0, -2.0).map(lambda e: 10.0 ** e)))
        if a < ZMIN:
            a = 0.0
    return [min(a, b), max(a, b)]


def is_curved(kw):
    return kw.get("omega_k") is not None and kw.get("omega_k") != 0.0


# --------------------------------------------------------------------------------------
# model of the documented parameter normalisation
# --------------------------------------------------------------------------------------
def model_params(kw):
    H0 = 100.0
    if "H0" in kw:
        H0 = kw["H0"]
    if kw.get("h") is not None:
        H0 = 100.0 * kw["h"]
    om = kw.get("omega_m", 0.3)
    if is_curved(kw):
        flat, ok, ol = False, kw["omega_k"], kw.get("omega_l", 0.7)
    else:
        flat, ok, ol = True, 0.0, 1.0 - om
    return {"H0": H0, "DH": CLIGHT / H0, "flat": flat, "omega_m": om, "omega_l": ol, "omega_k": ok}


class Par(object):
    """Parameters as reported by the object (plain floats)."""

    def __init__(self, c):
        self.DH = float(c.DH())
        self.flat = bool(c.flat())
        self.om = float(c.omega_m())
        self.ol = float(c.omega_l())
        self.ok = float(c.omega_k())

    def f(self):
        om, ol, ok = self.om, self.ol, (0.0 if self.flat else self.ok)

        def ezinv(z):
            a = 1.0 + z
            return 1.0 / math.sqrt(om * a * a * a + ok * a * a + ol)
        return ezinv


def reported(c):
    return {"H0": c.H0(), "DH": c.DH(), "flat": bool(c.flat()), "omega_m": c.omega_m(),
            "omega_l": c.omega_l(), "omega_k": c.omega_k()}


def check_reported(c, kw, what="constructor"):
    exp = model_params(kw)
    got = reported(c)
    for k in ("H0", "flat", "omega_m", "omega_l", "omega_k"):
        require(got[k] == exp[k], "%s(%r): %s() = %r, documented normalisation gives %r", what, kw, k,
                got[k], exp[k])
    require(abs(got["DH"] - exp["DH"]) <= 2 * np.spacing(exp["DH"]), "%s(%r): DH() = %r, c/H0 = %r", what,
            kw, got["DH"], exp["DH"])
    return got


# --------------------------------------------------------------------------------------
# truth and independent Gauss-Legendre evaluation
# --------------------------------------------------------------------------------------
def quad_I(f, a, b, epsrel=1e-13):
    """(integral, absolute error estimate) of f over [a,b]."""
    import warnings
    from scipy import integrate
    if a == b:
        return 0.0, 0.0
    with warnings.catch_warnings():
        warnings.simplefilter("ignore", integrate.IntegrationWarning)
        v, e = integrate.quad(f, a, b, epsabs=0.0, epsrel=epsrel, limit=200)
    return v, e


def gl_I(f, a, b, x=X5, w=W5):
    f1 = (b - a) / 2.0
    f2 = (b + a) / 2.0
    s = 0.0
    for xi, wi in zip(x, w):
        s += f1 * f(xi * f1 + f2) * wi
    return s


def dm_of_I(p, I):
    """Transverse comoving distance for a line-of-sight integral I; also I dDm/dI."""
    if p.flat or p.ok == 0.0:
        return p.DH * I, p.DH * I
    if p.ok > 0:
        r = math.sqrt(p.ok)
        return p.DH / r * math.sinh(r * I), p.DH * I * math.cosh(r * I)
    r = math.sqrt(-p.ok)
    return p.DH / r * math.sin(r * I), p.DH * I * math.cos(r * I)


def bound_check(name, got, truth, gl, scale, s, qrel, ctx, args):
    """|got - truth| <= 1.5 |gl - truth| + s*scale (+ the quadrature's own error estimate)."""
    err = abs(got - truth)
    egl = abs(gl - truth)
    scale = max(abs(truth), abs(scale))
    tol = 1.5 * egl + (s + 10.0 * qrel) * scale
    require(err <= tol,
            "%s%r = %.17g, definition %.17g: error %.3g exceeds 1.5 x Gauss-Legendre error %.3g + %.0e x %.3g",
            name, args, got, truth, err, egl, s, scale)
    if scale > 0 and egl < 0.1 * s * scale:
        ctx.count("gl-error-below-slack")


def ulps(a, b):
    if a == b:
        return 0.0
    return abs(a - b) / np.spacing(max(abs(a), abs(b)))


def make(kw):
    import esutil.cosmology
    return must(esutil.cosmology.Cosmo, **kw)


# --------------------------------------------------------------------------------------
# sub-check: parameter normalisation
# --------------------------------------------------------------------------------------
def check_params(case, ctx):
    c = make(case["ctor"])
    check_reported(c, case["ctor"])


def classify_cosmo(case):
    kw = case["ctor"]
    labs = ["curved" if is_curved(kw) else "flat"]
    if is_curved(kw):
        labs.append("nt:curved")
        labs.append("ok:" + ("pos" if kw["omega_k"] > 0 else "neg"))
        labs.append("flatarg:%s" % kw.get("flat", "absent"))
    else:
        labs.append("flatstyle:%s%s%s" % ("k" if "omega_k" in kw else "", "l" if "omega_l" in kw else "",
                                         "f" if "flat" in kw else ""))
    labs.append("hub:%s%s" % ("H" if "H0" in kw else "", "h" if "h" in kw else ""))
    return labs


@st.composite
def params_cases(draw):
    return {"ctor": draw(cosmologies())}


# --------------------------------------------------------------------------------------
# sub-check: distances (scalar calls) against the definitions
# --------------------------------------------------------------------------------------
@st.composite
def distance_cases(draw):
    return {"ctor": draw(cosmologies()), "pairs": draw(st.lists(zpair(), min_size=1, max_size=3))}


def check_distances(case, ctx):
    c = make(case["ctor"])
    p = Par(c)
    f = p.f()
    for a, b in case["pairs"]:
        It, qe = quad_I(f, a, b)
        qrel = qe / abs(It) if It != 0 else 0.0
        Ig = gl_I(f, a, b)
        # 1/E(z)
        for z in (a, b):
            got = must(c.Ez_inverse, z)
            # rounding of the three-term sum E^2 is amplified by (sum |terms|) / E^2 when they cancel
            opz = 1.0 + z
            amp = (abs(p.om) * opz ** 3 + abs(0.0 if p.flat else p.ok) * opz ** 2 + abs(p.ol)) * f(z) ** 2
            require(ulps(got, f(z)) <= 4 + 4 * amp, "Ez_inverse(%r) = %.17g, definition %.17g (allowed "
                    "%.1f ulp)", z, got, f(z), 4 + 4 * amp)
        got = must(c.Ezinv_integral, a, b)
        bound_check("Ezinv_integral", got, It, Ig, It, S_SINGLE, qrel, ctx, (a, b))
        got = must(c.Dc, a, b)
        bound_check("Dc", got, p.DH * It, p.DH * Ig, p.DH * It, S_SINGLE, qrel, ctx, (a, b))
        dmt, cond = dm_of_I(p, It)
        dmg, _ = dm_of_I(p, Ig)
        got = must(c.Dm, a, b)
        bound_check("Dm", got, dmt, dmg, cond, S_SINGLE, qrel, ctx, (a, b))
        got = must(c.Da, a, b)
        bound_check("Da", got, dmt / (1.0 + b), dmg / (1.0 + b), cond / (1.0 + b), S_SINGLE, qrel, ctx, (a, b))
        got = must(c.Dl, a, b)
        bound_check("Dl", got, dmt * (1.0 + b), dmg * (1.0 + b), cond * (1.0 + b), S_SINGLE, qrel, ctx, (a, b))
        # distance modulus to b (from z = 0)
        if b > 0:
            I0, q0 = quad_I(f, 0.0, b)
            d0t, cond0 = dm_of_I(p, I0)
            d0g, _ = dm_of_I(p, gl_I(f, 0.0, b))
            if d0t > 0 and d0g > 0:
                mt = 5.0 * math.log10(d0t * (1.0 + b) * 1.0e5)
                mg = 5.0 * math.log10(d0g * (1.0 + b) * 1.0e5)
                got = float(must(c.distmod, b))
                # d(mu) = 5/ln10 dDl/Dl
                scale = 5.0 / math.log(10.0) * max(1.0, abs(cond0 / d0t))
                err, egl = abs(got - mt), abs(mg - mt)
                tol = 1.5 * egl + (S_SINGLE + 10.0 * q0 / I0) * scale + 4 * np.spacing(abs(mt))
                require(err <= tol, "distmod(%r) = %.17g, definition %.17g: error %.3g exceeds 1.5 x "
                        "Gauss-Legendre error %.3g + allowance", b, got, mt, err, egl)
            else:
                ctx.count("distmod-skipped-nonpositive-Dl")


def classify_dist(case):
    labs = classify_cosmo(case)
    zs = [z for pr in case["pairs"] for z in pr]
    if max(zs) > 1:
        labs.append("nt:zmax>1")
    if any(a == b for a, b in case["pairs"]):
        labs.append("equal-pair")
    if any(a == 0.0 for a, b in case["pairs"]):
        labs.append("from-zero")
    if any(a > 0 and a != b for a, b in case["pairs"]):
        labs.append("zmin>0")
    return labs


# --------------------------------------------------------------------------------------
# sub-check: volume element and volume
# --------------------------------------------------------------------------------------
@st.composite
def volume_cases(draw):
    return {"ctor": draw(cosmologies()), "pairs": draw(st.lists(zpair(), min_size=1, max_size=2))}


def _dv(p, f, z, I):
    dm, cond = dm_of_I(p, I)
    return p.DH * dm * dm * f(z), 2.0 * p.DH * abs(dm * cond) * f(z)


def check_volume(case, ctx):
    c = make(case["ctor"])
    p = Par(c)
    f = p.f()
    for a, b in case["pairs"]:
        # dV at b
        It, qe = quad_I(f, 0.0, b)
        qrel = qe / It if It != 0 else 0.0
        dvt, cond = _dv(p, f, b, It)
        dvg, _ = _dv(p, f, b, gl_I(f, 0.0, b))
        got = must(c.dV, b)
        bound_check("dV", got, dvt, dvg, cond, S_SINGLE, qrel, ctx, (b,))
        # V(a, b) = 4 pi int dV
        conds = []

        def dv_true(z):
            I, _ = quad_I(f, 0.0, z)
            v, cd = _dv(p, f, z, I)
            conds.append(cd)
            return v

        def dv_gl(z):
            return _dv(p, f, z, gl_I(f, 0.0, z))[0]

        vt, ve = quad_I(dv_true, a, b, epsrel=1e-12)
        vg = gl_I(dv_gl, a, b, X10, W10)
        vt *= 4.0 * math.pi
        vg *= 4.0 * math.pi
        got = must(c.V, a, b)
        cscale = 4.0 * math.pi * (b - a) * max(conds) if conds else 0.0
        bound_check("V", got, vt, vg, cscale, S_VOLUME, (ve * 4.0 * math.pi / vt if vt != 0 else 0.0), ctx,
                    (a, b))


# --------------------------------------------------------------------------------------
# sub-check: inverse critical density
# --------------------------------------------------------------------------------------
@st.composite
def lensing_cases(draw):
    return {"ctor": draw(cosmologies()), "pairs": draw(st.lists(zpair(), min_size=1, max_size=3)),
            "reversed": draw(st.booleans())}


def _geom(p, f, zl, zs, I):
    """Dls Dl / Ds (Mpc) from an integrator I(a,b) and a conditioning scale."""
    i_l, i_s, i_ls = I(0.0, zl), I(0.0, zs), I(zl, zs)
    dl, cl = dm_of_I(p, i_l)
    ds, cs = dm_of_I(p, i_s)
    dls, cls = dm_of_I(p, i_ls)
    dl, cl = dl / (1.0 + zl), cl / (1.0 + zl)
    ds, cs = ds / (1.0 + zs), cs / (1.0 + zs)
    dls, cls = dls / (1.0 + zs), cls / (1.0 + zs)
    g = dls * dl / ds
    cond = (abs(cls * dl / ds) + abs(dls * cl / ds) + abs(dls * dl * cs / (ds * ds)))
    return g, cond


ZREF = (0.01, 0.02)


def check_lensing(case, ctx):
    c = make(case["ctor"])
    p = Par(c)
    f = p.f()
    qrels = []

    def It(a, b):
        v, e = quad_I(f, a, b)
        if v != 0:
            qrels.append(e / abs(v))
        return v

    def Ig(a, b):
        return gl_I(f, a, b)

    # unit constant implied by a narrow reference call on this object (Gauss-Legendre error
    # negligible there); it must be 4 pi G Msun / c^2 within 5e-4
    gref, _ = _geom(p, f, ZREF[0], ZREF[1], It)
    gref_gl, _ = _geom(p, f, ZREF[0], ZREF[1], Ig)
    s_lens = S_LENS + 1.5 * abs(gref_gl / gref - 1.0)       # (the second term is ~1e-19)
    sref = must(c.sigmacritinv, ZREF[0], ZREF[1])
    require(gref > 0 and sref > 0, "sigmacritinv%r = %r for geometry factor %r", ZREF, sref, gref)
    K = sref / gref
    require(abs(K / K_CODATA - 1.0) <= 5e-4,
            "sigmacritinv%r / (Dls Dl/Ds) = %.10g pc^2/Msun/Mpc; 4 pi G Msun/c^2 = %.10g", ZREF, K, K_CODATA)
    for a, b in case["pairs"]:
        if case["reversed"] or a == b:
            got = must(c.sigmacritinv, b, a)
            require(got == 0.0, "sigmacritinv(zl=%r, zs=%r) = %r, must be 0 for a source at or in front of "
                    "the lens", b, a, got)
            if a == b:
                continue
        if a == 0.0:
            got = must(c.sigmacritinv, a, b)
            require(got == 0.0, "sigmacritinv(zl=0, zs=%r) = %r (Dl = 0)", b, got)
            continue
        del qrels[:]
        gt, cond = _geom(p, f, a, b, It)
        gg, _ = _geom(p, f, a, b, Ig)
        got = must(c.sigmacritinv, a, b)
        bound_check("sigmacritinv", got, K * gt, K * gg, K * cond, s_lens, max(qrels) if qrels else 0.0, ctx,
                    (a, b))


# --------------------------------------------------------------------------------------
# sub-check: absolute accuracy for concordance-like parameters
# --------------------------------------------------------------------------------------
@st.composite
def concordance_cases(draw):
    lowz = draw(st.booleans())
    zz = st.floats(0.0, 1.0).map(lambda z: 0.0 if z < ZMIN else z) if lowz else _z
    a, b = draw(zz), draw(zz)
    return {"ctor": draw(concordance()), "pair": [min(a, b), max(a, b)]}


def check_concordance(case, ctx):
    c = make(case["ctor"])
    p = Par(c)
    f = p.f()
    a, b = case["pair"]
    lim = 1e-6 if b <= 1.0 else 1e-3

    def rel(name, got, truth, args):
        require(abs(got - truth) <= lim * abs(truth),
                "%s%r = %.17g, definition %.17g: relative error %.3g > %g stated for concordance-like "
                "parameters", name, args, got, truth, abs(got - truth) / abs(truth) if truth else np.inf, lim)

    It, _ = quad_I(f, a, b)
    I0, _ = quad_I(f, 0.0, b)
    rel("Ezinv_integral", must(c.Ezinv_integral, a, b), It, (a, b))
    rel("Dc", must(c.Dc, a, b), p.DH * It, (a, b))
    dm = dm_of_I(p, It)[0]
    rel("Dm", must(c.Dm, a, b), dm, (a, b))
    rel("Da", must(c.Da, a, b), dm / (1 + b), (a, b))
    rel("Dl", must(c.Dl, a, b), dm * (1 + b), (a, b))
    rel("dV", must(c.dV, b), _dv(p, f, b, I0)[0], (b,))
    vt, _ = quad_I(lambda z: _dv(p, f, z, quad_I(f, 0.0, z)[0])[0], a, b, epsrel=1e-12)
    rel("V", must(c.V, a, b), 4 * math.pi * vt, (a, b))
    if a > 0 and b > a:
        sref = must(c.sigmacritinv, *ZREF)
        K = sref / _geom(p, f, ZREF[0], ZREF[1], lambda x, y: quad_I(f, x, y)[0])[0]
        g = _geom(p, f, a, b, lambda x, y: quad_I(f, x, y)[0])[0]
        rel("sigmacritinv", must(c.sigmacritinv, a, b), K * g, (a, b))


def classify_conc(case):
    labs = classify_cosmo(case)
    labs.append("z<=1" if case["pair"][1] <= 1 else "nt:zmax>1")
    return labs


# --------------------------------------------------------------------------------------
# sub-check: exact identities
# --------------------------------------------------------------------------------------
@st.composite
def identity_cases(draw):
    return {"ctor": draw(cosmologies()), "pairs": draw(st.lists(zpair(), min_size=1, max_size=4))}


def check_identities(case, ctx):
    c = make(case["ctor"])
    flat = bool(c.flat())
    for a, b in case["pairs"]:
        dc, dm, da, dl = [must(m, a, b) for m in (c.Dc, c.Dm, c.Da, c.Dl)]
        require(ulps(da, dm / (1.0 + b)) <= 4, "Da(%r,%r) = %.17g but Dm/(1+z) = %.17g", a, b, da,
                dm / (1.0 + b))
        require(ulps(dl, dm * (1.0 + b)) <= 4, "Dl(%r,%r) = %.17g but Dm (1+z) = %.17g", a, b, dl,
                dm * (1.0 + b))
        if flat:
            require(ulps(dm, dc) <= 4, "flat: Dm(%r,%r) = %.17g but Dc = %.17g", a, b, dm, dc)
        rev = must(c.Dc, b, a)
        require(ulps(rev, -dc) <= 4, "Dc(%r,%r) = %.17g but -Dc(%r,%r) = %.17g", b, a, rev, a, b, -dc)
        require(ulps(must(c.Ezinv_integral, b, a), -must(c.Ezinv_integral, a, b)) <= 4,
                "Ezinv_integral(%r,%r) != -Ezinv_integral(%r,%r)", b, a, a, b)
        require(ulps(dc, must(c.DH) * must(c.Ezinv_integral, a, b)) <= 4,
                "Dc(%r,%r) = %.17g but DH * Ezinv_integral = %.17g", a, b, dc,
                must(c.DH) * must(c.Ezinv_integral, a, b))
        require(must(c.sigmacritinv, b, a) == 0.0, "sigmacritinv(zl=%r, zs=%r) must be 0", b, a)
        require(must(c.sigmacritinv, b, b) == 0.0, "sigmacritinv(zl=%r, zs=%r) must be 0", b, b)
        if b > 0:
            dl0 = must(c.Dl, 0.0, b)
            if dl0 > 0:
                dm_ = float(must(c.distmod, b))
                exp = 5.0 * math.log10(dl0 * 1.0e5)
                require(abs(dm_ - exp) <= 4 * np.spacing(max(abs(exp), 1.0)),
                        "distmod(%r) = %.17g but 5 log10(Dl 1e5) = %.17g", b, dm_, exp)
                require(must(c.Distmod, b) == must(c.distmod, b), "Distmod alias differs from distmod")
        # dV = DH Da(0,z)^2 (1+z)^2 / E(z)
        da0 = must(c.Da, 0.0, b)
        dv = must(c.dV, b)
        exp = must(c.DH) * da0 * da0 * must(c.Ez_inverse, b) * (1.0 + b) * (1.0 + b)
        require(ulps(dv, exp) <= 8, "dV(%r) = %.17g but DH Da^2 (1+z)^2 / E = %.17g", b, dv, exp)


# --------------------------------------------------------------------------------------
# sub-check: array-valued calls equal scalar calls
# --------------------------------------------------------------------------------------
TWO_ARG = ["Dc", "Dm", "Da", "Dl", "sigmacritinv"]
ONE_ARG = ["dV", "Ez_inverse", "distmod"]
KINDS = ["f8", "f4", "i8", "list", "intlist", "strided", "negstride", "swapped", "f8-1"]


def _is_plain(kind):
    return kind in ("f8", "f8-1")


@st.composite
def array_cases(draw):
    method = draw(st.sampled_from(TWO_ARG + TWO_ARG + ONE_ARG))
    n = draw(st.sampled_from([1, 2, 3, 5, 17, 50]))
    case = {"ctor": draw(cosmologies()), "method": method}

    def values(kind, n):
        if kind in ("i8", "intlist"):
            return draw(st.lists(st.integers(0, 5), min_size=n, max_size=n))
        return draw(st.lists(_z, min_size=n, max_size=n))

    if method in ONE_ARG:
        k = draw(st.sampled_from(KINDS))
        if k == "f8-1":
            n = 1
        case.update(mode="a", kinds=[k], lo=values(k, n))
        return case
    mode = draw(st.sampled_from(["as", "sa", "aa", "aa", "mismatch"]))
    k1, k2 = draw(st.sampled_from(KINDS)), draw(st.sampled_from(KINDS))
    if "f8-1" in (k1, k2) and mode != "mismatch":
        n = 1
    case.update(mode=mode, kinds=[k1, k2])
    if mode == "mismatch":
        n2 = draw(st.sampled_from([1, 2, 4, 51]))
        if n2 == n:
            n2 = n + 1
        case.update(lo=values(k1, n), hi=values(k2, n2))
        return case
    x, y = values(k1, n), values(k2, n)
    i1, i2 = k1 in ("i8", "intlist"), k2 in ("i8", "intlist")
    if mode == "aa":
        if i1 == i2:
            case.update(lo=[min(a, b) for a, b in zip(x, y)], hi=[max(a, b) for a, b in zip(x, y)])
        elif i1:    # integer lower bounds stay integers, the float upper bounds are raised
            case.update(lo=x, hi=[max(float(a), b) for a, b in zip(x, y)])
        else:
            case.update(lo=[min(a, float(b)) for a, b in zip(x, y)], hi=y)
    elif mode == "as":
        s = draw(_z)
        if k1 in ("i8", "intlist"):
            s = 5.0 if draw(st.booleans()) else float(max(x))
        else:
            s = max([s] + x)
        case.update(lo=x, hi=s)
    else:
        s = draw(_z)
        if k2 in ("i8", "intlist"):
            s = 0.0 if draw(st.booleans()) else float(min(y))
        else:
            s = min([s] + y)
        case.update(lo=s, hi=y)
    return case


def _container(kind, vals):
    """(argument handed to esutil, list of the float64 values it denotes)."""
    if kind == "list":
        return list(vals), [float(v) for v in vals]
    if kind == "intlist":
        return [int(v) for v in vals], [float(int(v)) for v in vals]
    if kind == "i8":
        a = np.array([int(v) for v in vals], dtype="i8")
        return a, [float(v) for v in a]
    if kind == "f4":
        a = np.array(vals, dtype="f4")
        return a, [float(v) for v in a]
    a = np.array(vals, dtype="f8")
    ref = [float(v) for v in a]
    if kind == "strided":
        base = np.full(2 * a.size + 1, 77.25)
        base[1::2] = a
        return base[1::2], ref
    if kind == "negstride":
        base = a[::-1].copy()
        return base[::-1], ref
    if kind == "swapped":
        return a.astype(">f8"), ref
    return a, ref


def check_arrays(case, ctx):
    c = make(case["ctor"])
    meth = getattr(c, case["method"])
    mode, kinds = case["mode"], case["kinds"]
    if mode == "a":
        arg, ref = _container(kinds[0], case["lo"])
        snapshot = np.array(ref)
        with np.errstate(divide="ignore"):
            got = must(meth, arg)
            exp = [float(must(meth, v)) for v in ref]
        _same(case, got, exp, len(ref))
        require(np.array_equal(np.asarray(arg, dtype="f8"), snapshot), "%s modified its array argument",
                case["method"])
        return
    if mode == "mismatch":
        a1, _ = _container(kinds[0], case["lo"])
        a2, _ = _container(kinds[1], case["hi"])
        r = sut(meth, a1, a2)
        require(isinstance(r, Raised) and isinstance(r.exc, ValueError),
                "%s with arrays of length %d and %d must raise ValueError, got %r", case["method"],
                len(case["lo"]), len(case["hi"]), r)
        return
    if mode == "aa":
        a1, r1 = _container(kinds[0], case["lo"])
        a2, r2 = _container(kinds[1], case["hi"])
        got = must(meth, a1, a2)
        exp = [must(meth, u, v) for u, v in zip(r1, r2)]
    elif mode == "as":
        a1, r1 = _container(kinds[0], case["lo"])
        s = _scalar(kinds[1], case["hi"])
        got = must(meth, a1, s)
        exp = [must(meth, u, float(s)) for u in r1]
    else:
        s = _scalar(kinds[0], case["lo"])
        a2, r2 = _container(kinds[1], case["hi"])
        got = must(meth, s, a2)
        exp = [must(meth, float(s), v) for v in r2]
    _same(case, got, exp, len(exp))


def _scalar(kind, v):
    """Scalar argument in a flavour derived from the other argument's kind label."""
    if kind == "f4" and float(np.float32(v)) == v:
        return np.float32(v)
    if kind in ("i8", "intlist") and float(int(v)) == v:
        return int(v) if kind == "intlist" else np.int64(int(v))
    if kind == "swapped":
        return np.float64(v)
    return float(v)


def _same(case, got, exp, n):
    require(isinstance(got, np.ndarray) and got.shape == (n,) and got.dtype == np.float64,
            "%s with array input returned %r (expected float64 array of shape (%d,))", case["method"],
            type(got) if not isinstance(got, np.ndarray) else (got.dtype, got.shape), n)
    for i, (g, e) in enumerate(zip(got.tolist(), exp)):
        require(g == e or (g != g and e != e),
                "%s array call element %d = %.17g, scalar call gives %.17g (mode %s, kinds %r)",
                case["method"], i, g, e, case["mode"], case["kinds"])


def classify_arrays(case):
    labs = classify_cosmo(case)
    labs += ["method:" + case["method"], "mode:" + case["mode"]] + ["kind:" + k for k in case["kinds"]]
    arr_kinds = []
    if case["mode"] in ("a", "as", "aa", "mismatch"):
        arr_kinds.append(case["kinds"][0])
    if case["mode"] in ("sa", "aa", "mismatch"):
        arr_kinds.append(case["kinds"][1])
    if any(not _is_plain(k) for k in arr_kinds):
        labs.append("nt:non-f8-array")
    if case["mode"] == "mismatch":
        labs.append("nt:mismatch")
    return labs


# --------------------------------------------------------------------------------------
# sub-check: copies
# --------------------------------------------------------------------------------------
COPIES = ["copy", "copy.copy", "copy.deepcopy", "pickle", "pickle0", "copy-of-copy", "pickle-of-copy"]


@st.composite
def copy_cases(draw):
    return {"ctor": draw(cosmologies()), "how": draw(st.sampled_from(COPIES)),
            "before": draw(st.sampled_from(["nothing", "distances", "extract_parms", "extract_parms"])),
            "pairs": draw(st.lists(zpair(), min_size=1, max_size=2))}


def check_copies(case, ctx):
    c = make(case["ctor"])
    # other cosmologies are built (and used) between creating an object and copying it: a copy describes the
    # object it was taken from, whatever was constructed or evaluated in between
    import esutil.cosmology as _ec
    other = _ec.Cosmo(omega_m=0.9, omega_l=0.3, omega_k=-0.2, flat=False, H0=42.0)
    other.sigmacritinv(0.3, 0.8)
    # ... and the object itself was used: distances evaluated, its public parameter-normalisation helper asked
    # about some other parameter set
    rc0 = reported(c)
    if case.get("before") == "distances":
        must(c.Da, 0.1, [0.5, 1.5])
        must(c.V, 0.0, 1.0)
    elif case.get("before") == "extract_parms":
        must(c.extract_parms, 0.9, 0.3, -0.2, False)
        must(c.extract_parms, 0.25, None, None, True)
        require(reported(c) == rc0, "extract_parms() (a query) changed what the object reports: %r -> %r", rc0,
                reported(c))
    how = case["how"]
    if how == "copy":
        d = must(c.copy)
    elif how == "copy.copy":
        d = must(_copy.copy, c)
    elif how == "copy.deepcopy":
        d = must(_copy.deepcopy, c)
    elif how == "pickle":
        d = must(pickle.loads, must(pickle.dumps, c))
    elif how == "pickle0":
        d = must(pickle.loads, must(pickle.dumps, c, 0))
    elif how == "copy-of-copy":
        d = must(must(c.copy).copy)
    else:
        d = must(pickle.loads, must(pickle.dumps, must(c.copy)))
    require(d is not c and type(d) is type(c), "%s did not return a new Cosmo", how)
    rc, rd = reported(c), reported(d)
    require(rc == rd, "%s reports %r, the original %r", how, rd, rc)
    for a, b in case["pairs"]:
        for name in ("Dc", "Dm", "Da", "Dl", "sigmacritinv", "V", "Ezinv_integral"):
            x, y = must(getattr(c, name), a, b), must(getattr(d, name), a, b)
            require(x == y, "%s: %s(%r,%r) = %.17g on the copy, %.17g on the original", how, name, a, b, y, x)
        for name in ("dV", "Ez_inverse"):
            x, y = must(getattr(c, name), b), must(getattr(d, name), b)
            require(x == y, "%s: %s(%r) = %.17g on the copy, %.17g on the original", how, name, b, y, x)
        arr = must(d.Da, a, [b, b])
        require(arr[0] == must(c.Da, a, b), "%s: array call on the copy differs", how)


def classify_copies(case):
    return classify_cosmo(case) + ["how:" + case["how"], "used-before-copy:" + case.get("before", "nothing")]


def selftest():
    """Pin the quadrature truth against mpmath and the unit constant against its definition."""
    import mpmath as mp
    mp.mp.dps = 30
    for om, ok, ol in [(0.3, 0.0, 0.7), (0.3, -0.5, 1.2), (1.2, 0.5, 0.0), (1e-3, 0.0, 0.999)]:
        def f(z):
            a = 1.0 + z
            return 1.0 / math.sqrt(om * a * a * a + ok * a * a + ol)
        for a, b in [(0.0, 5.0), (0.3, 1.1), (4.999, 5.0)]:
            v, _ = quad_I(f, a, b)
            ref = mp.quad(lambda z: 1 / mp.sqrt(mp.mpf(om) * (1 + z) ** 3 + mp.mpf(ok) * (1 + z) ** 2 + mp.mpf(ol)),
                          [a, b])
            if abs(v - float(ref)) > 2e-13 * abs(float(ref)):
                raise RuntimeError("quad truth drifted from mpmath: %r vs %r" % (v, ref))
    if abs(K_CODATA / 6.0135e-7 - 1) > 1e-4:
        raise RuntimeError("unit constant %r" % K_CODATA)
    # leggauss(5) integrates polynomials of degree 9 exactly
    if abs(gl_I(lambda x: x ** 9 + x ** 8, -1.0, 2.0) - (2.0 ** 10 / 10 + 2.0 ** 9 / 9 - 0.1 + 1.0 / 9)) > 1e-12:
        raise RuntimeError("Gauss-Legendre reference broken")


SANITIZE = True        # thorough tier: reduced pass against an ASan build of the extensions
SANITIZE_SCALE = 0.03

SUBCHECKS = [
    Subcheck("params", params_cases, check_params, classify_cosmo, quick=2000, thorough=80000),
    Subcheck("distances", distance_cases, check_distances, classify_dist, quick=2500, thorough=150000),
    Subcheck("volume", volume_cases, check_volume, classify_dist, quick=1000, thorough=60000),
    Subcheck("lensing", lensing_cases, check_lensing, classify_dist, quick=1200, thorough=80000),
    Subcheck("concordance", concordance_cases, check_concordance, classify_conc, quick=600, thorough=40000),
    Subcheck("identities", identity_cases, check_identities, classify_dist, quick=2500, thorough=150000),
    Subcheck("arrays", array_cases, check_arrays, classify_arrays, quick=5000, thorough=300000),
    Subcheck("copies", copy_cases, check_copies, classify_copies, quick=1500, thorough=60000),
]
