"""C15 -- calls that are not documented as in-place never modify the arrays passed to them.

Oracle: snapshot of dtype, shape, strides, writeable flag and the bytes of the WHOLE base
buffer of every array argument before the call; identical afterwards, whether the call
returned or raised.
"""
import io as _io

import numpy as np
from hypothesis import strategies as st

from vp.api import Raised, Subcheck, Violation, require, sut
from vp.gen import tables as T

PROPERTY = "C15"
RULE = ("a registry of public array-taking calls (record-file writers binary/text, field operations, byte-order "
        "conversion with inplace off, match/unique/rem_dup, histogram/Binner with weights, statistics helpers, "
        "coordinate conversions, WCS, cosmology distances, HTM lookup/match/bincount) x option values that select "
        "different conversion paths; every array argument independently drawn as f8/f4/i8/i4 (where numeric), "
        "native or byte-swapped, contiguous / strided view / offset view into a larger buffer / Fortran-ordered "
        "2-d / 0-d where the call takes them; values expanded from a drawn seed. Non-trivial: at least one "
        "argument that forces an internal conversion (non-native, non-contiguous, f4 or integer, or a structured "
        "table in big-endian order). Distinct = distinct case JSON."
        " Arrays built from esutil results and handed on (precomputed htm ids / reverse indices) are watched as well; text writers are also run with padnull/ignorenull and after a native table was written through the same handle; wcsutil.wrap_ra_diff is part of the registry.")
RULE += (" " + 'Also: for calls with registered edge values (radii 180/181/200 deg, NaN/inf flags, longitudes outside [0,360), latitudes +-90, RA differences of +-180/540) every second case plants up to three of them into the floating-point argument.')
ASSUMPTIONS = [
    "arguments documented as modified (copy_fields target, copy_fields_by_name target, inplace=True, the in-place "
    "sorts) are not snapshotted",
    "a call may raise for an argument form it does not support; the property only demands the arguments are left "
    "unchanged, so exceptions are tolerated here (counted in evidence notes per call)",
]
TECHNIQUE = "property-based testing (Hypothesis): before/after snapshot of the whole base buffer of every array argument over generated dtypes, byte orders and memory layouts"
LEVEL_TEXT = ("Generated-input search over ~70 public calls x argument dtype/byte-order/layout variants; every call is "
              "executed on the real code and every argument's base buffer compared bit for bit before and after.")

NUM_DTYPES = ["f8", "f8", "f4", "i8", "i4"]
LAYOUTS_1D = ["contig", "contig", "strided", "offset"]

# ------------------------------------------------------------------------------------------
# value kinds
# ------------------------------------------------------------------------------------------


def _values(kind, n, rng):
    if kind == "lon":
        return rng.uniform(0, 360, n)
    if kind == "lat":
        return np.degrees(np.arcsin(rng.uniform(-1, 1, n)))
    if kind == "lonrad":
        return rng.uniform(0, 2 * np.pi, n)
    if kind == "latrad":
        return np.arcsin(rng.uniform(-1, 1, n))
    if kind == "lon_cl":       # clustered so that matches exist
        return 100 + rng.uniform(0, 0.2, n)
    if kind == "lat_cl":
        return 20 + rng.uniform(0, 0.2, n)
    if kind == "z":
        return rng.uniform(0.05, 3.0, n)
    if kind == "pos":
        return np.exp(rng.normal(0, 1, n)) + 0.5
    if kind == "data":
        return rng.normal(0, 10, n)
    if kind == "sorted":
        return np.sort(rng.uniform(-50, 50, n)) + np.arange(n)
    if kind == "unit":
        return rng.uniform(-1, 1, n)
    if kind == "pix":
        return rng.uniform(1, 2000, n)
    if kind == "rad":
        return 10 ** rng.uniform(-3, -1, n)
    if kind == "uniq":
        return rng.permutation(n * 3)[:n].astype("f8")
    if kind == "small":
        return rng.integers(0, 6, n).astype("f8")
    if kind == "scale":
        return rng.uniform(0.5, 2.0, n)
    if kind == "dra":          # right-ascension differences, many of them outside [-180, 180]
        return rng.uniform(-800, 800, n)
    if kind == "ra_wcs":
        return 35.5 + rng.uniform(-0.05, 0.05, n)
    if kind == "dec_wcs":
        return -7.8 + rng.uniform(-0.1, 0.1, n)
    raise KeyError(kind)


def _materialize(vals, var):
    """-> (view handed to esutil, base buffer owned by us)"""
    dt = np.dtype(var["dtype"])
    a = np.asarray(vals)
    if dt.kind in "iu":
        a = np.round(a)
    a = a.astype(dt)
    if var["order"] == "swapped":
        a = a.astype(dt.newbyteorder("S"))
    lay = var["layout"]
    n = a.size
    if lay == "contig":
        base = a.copy()
        return base, base
    if lay == "strided":
        base = np.full(2 * n + 3, 7, dtype=a.dtype)
        base[1:1 + 2 * n:2] = a
        return base[1:1 + 2 * n:2], base
    if lay == "offset":
        base = np.full(n + 5, 7, dtype=a.dtype)
        base[3:3 + n] = a
        return base[3:3 + n], base
    if lay == "0d":
        base = np.array(a.reshape(-1)[0])
        return base, base
    if lay == "F2d":
        k = 2 if n % 2 == 0 else 1
        base = np.asfortranarray(a.reshape(n // k, k))
        return base, base
    if lay == "C2d":
        k = 2 if n % 2 == 0 else 1
        base = np.ascontiguousarray(a.reshape(n // k, k))
        return base, base
    raise KeyError(lay)


def _snap(view, base):
    return (view.dtype, view.dtype.str if view.dtype.names is None else repr(view.dtype.descr), view.shape,
            view.strides, view.flags.writeable, base.tobytes(order="A"), base.dtype, base.shape, base.strides)


# ------------------------------------------------------------------------------------------
# registry
# ------------------------------------------------------------------------------------------

CALLS = {}


def call(name, args, opts=None, layouts=None, n=(1, 12), dtypes=None, edges=None):
    """args: list of (argname, kind); opts: dict optname -> list of values; edges: argname -> special values that
    one case in three plants into that (floating-point) argument: values at the rim of what the call accepts, where
    a callee 'sanitises' or clips its input"""
    def deco(fn):
        CALLS[name] = {"fn": fn, "args": args, "opts": opts or {}, "layouts": layouts or LAYOUTS_1D, "n": n,
                       "dtypes": dtypes or NUM_DTYPES, "edges": edges or {}}
        return fn
    return deco


def _watch(A, name, arr):
    """Register an array built inside a registered call (from esutil results) that is then handed to the call
    under test as an argument: it is snapshotted now and compared after the call like the generated ones."""
    A.setdefault("__watch__", []).append((name, arr, arr, _snap(arr, arr)))


SKY2 = [("ra1", "lon"), ("dec1", "lat"), ("ra2", "lon"), ("dec2", "lat")]
LON_EDGE, LAT_EDGE = [-10.0, 370.0, 720.0, 360.0, 0.0, -360.0], [90.0, -90.0, 0.0]
SKY2_EDGES = {"ra1": LON_EDGE, "dec1": LAT_EDGE, "ra2": LON_EDGE, "dec2": LAT_EDGE}
AB_EDGES = {"a": LON_EDGE, "b": LAT_EDGE}
LAY0 = LAYOUTS_1D + ["0d"]
LAY2 = LAYOUTS_1D + ["F2d", "C2d"]


@call("coords.sphdist", SKY2, {"units": [["deg", "deg"], ["rad", "rad"], ["deg", "rad"]]}, edges=SKY2_EDGES)
def _(es, A, o, ctx):
    return es.coords.sphdist(A["ra1"], A["dec1"], A["ra2"], A["dec2"], units=o["units"])


@call("coords.gcirc", SKY2, {"getangle": [False, True]}, edges=SKY2_EDGES)
def _(es, A, o, ctx):
    return es.coords.gcirc(A["ra1"], A["dec1"], A["ra2"], A["dec2"], getangle=o["getangle"])


@call("coords.euler", [("a", "lon"), ("b", "lat")], {"select": [1, 2, 3, 4, 5, 6], "b1950": [False, True]}, layouts=LAY0,
      edges=AB_EDGES)
def _(es, A, o, ctx):
    return es.coords.euler(A["a"], A["b"], o["select"], b1950=o["b1950"])


for _nm in ["eq2gal", "gal2eq", "eq2ec", "ec2eq", "ec2gal", "gal2ec"]:
    def _mk(nm):
        @call("coords." + nm, [("a", "lon"), ("b", "lat")], {"b1950": [False, True], "dtype": ["f8", "f4"]}, layouts=LAY0,
              edges=AB_EDGES)
        def _(es, A, o, ctx):
            return getattr(es.coords, nm)(A["a"], A["b"], b1950=o["b1950"], dtype=o["dtype"])
    _mk(_nm)


@call("coords.eq2sdss", [("a", "lon"), ("b", "lat")], {"dtype": ["f8", "f4"]}, layouts=LAY0, edges=AB_EDGES)
def _(es, A, o, ctx):
    return es.coords.eq2sdss(A["a"], A["b"], dtype=o["dtype"])


@call("coords.sdss2eq", [("a", "lat"), ("b", "lat")], {"dtype": ["f8", "f4"]}, layouts=LAY0)
def _(es, A, o, ctx):
    return es.coords.sdss2eq(A["a"], A["b"], dtype=o["dtype"])


@call("coords.eq2xyz", [("a", "lon"), ("b", "lat")], {"units": ["deg", "rad"], "stomp": [False, True]}, layouts=LAY0,
      edges=AB_EDGES)
def _(es, A, o, ctx):
    return es.coords.eq2xyz(A["a"], A["b"], units=o["units"], stomp=o["stomp"])


@call("coords.xyz2eq", [("x", "unit"), ("y", "unit"), ("z", "unit")], {"units": ["deg", "rad"], "stomp": [False, True]},
      layouts=LAY0)
def _(es, A, o, ctx):
    return es.coords.xyz2eq(A["x"], A["y"], A["z"], units=o["units"], stomp=o["stomp"])


@call("coords.rotate", [("ra", "lon"), ("dec", "lat")], {"ang": [[10.0, 20.0, 30.0], [0.0, 0.0, 0.0]]}, layouts=LAY0)
def _(es, A, o, ctx):
    return es.coords.rotate(o["ang"][0], o["ang"][1], o["ang"][2], A["ra"], A["dec"])


@call("coords.shiftlon", [("lon", "lon")], {"shift": [None, 30.0, -400.0], "wrap": [True, False]}, layouts=LAY0,
      edges={"lon": LON_EDGE})
def _(es, A, o, ctx):
    return es.coords.shiftlon(A["lon"], shift=o["shift"], wrap=o["wrap"])


@call("coords.shiftra", [("lon", "lon")], {"shift": [None, 30.0], "wrap": [True, False]}, layouts=LAY0)
def _(es, A, o, ctx):
    return es.coords.shiftra(A["lon"], shift=o["shift"], wrap=o["wrap"])


# ---- statistics --------------------------------------------------------------------------

@call("stat.histogram", [("data", "data"), ("weights", "pos")],
      {"mode": ["binsize", "nbin", "nperbin"], "useweights": [False, True], "rev": [False, True], "more": [False, True],
       "engine": ["c", "py"]}, n=(2, 30))
def _(es, A, o, ctx):
    import esutil.stat.util as su
    kw = {"binsize": 3.0} if o["mode"] == "binsize" else {"nbin": 4} if o["mode"] == "nbin" else {"nperbin": 3}
    if o["useweights"]:
        kw["weights"] = A["weights"]
    old = su.have_chist
    try:
        if o["engine"] == "py":
            su.have_chist = False
        return es.stat.histogram(A["data"], rev=o["rev"], more=o["more"], **kw)
    finally:
        su.have_chist = old


@call("stat.Binner", [("x", "data"), ("y", "data"), ("weights", "pos")],
      {"mode": ["binsize", "nbin", "nperbin"], "usey": [False, True], "useweights": [False, True]}, n=(2, 30))
def _(es, A, o, ctx):
    kw = {"binsize": 3.0} if o["mode"] == "binsize" else {"nbin": 4} if o["mode"] == "nbin" else {"nperbin": 3}
    b = es.stat.Binner(A["x"], y=A["y"] if o["usey"] else None, weights=A["weights"] if o["useweights"] else None)
    b.dohist(rev=True, **kw)
    b.calc_stats()
    return b


@call("stat.wmom", [("arr", "data"), ("w", "pos")], {"calcerr": [False, True], "sdev": [False, True],
                                                     "inputmean": [None, 0.5, 0.0, 0]}, layouts=LAY2, n=(2, 20))
def _(es, A, o, ctx):
    return es.stat.wmom(A["arr"], A["w"], calcerr=o["calcerr"], sdev=o["sdev"], inputmean=o["inputmean"])


@call("stat.wmedian", [("arr", "data"), ("w", "pos")], n=(1, 20))
def _(es, A, o, ctx):
    return es.stat.wmedian(A["arr"], A["w"])


@call("stat.sigma_clip", [("arr", "data"), ("w", "pos")], {"useweights": [False, True], "get_err": [False, True],
                                                           "get_indices": [False, True], "nsig": [1.0, 3.0]}, n=(3, 30))
def _(es, A, o, ctx):
    return es.stat.sigma_clip(A["arr"], weights=A["w"] if o["useweights"] else None, nsig=o["nsig"], niter=3,
                              get_err=o["get_err"], get_indices=o["get_indices"], silent=True)


@call("stat.interplin", [("v", "data"), ("x", "sorted"), ("u", "data")], layouts=LAY0, n=(2, 15))
def _(es, A, o, ctx):
    return es.stat.interplin(A["v"], A["x"], A["u"])


@call("stat.get_stats", [("arr", "data"), ("w", "pos")], {"useweights": [False, True], "nsig": [None, 3.0]}, n=(3, 30))
def _(es, A, o, ctx):
    kw = {}
    if o["nsig"] is not None:
        kw["nsig"] = o["nsig"]
    return es.stat.get_stats(A["arr"], weights=A["w"] if o["useweights"] else None, **kw)


@call("stat.cov2cor", [("m", "pos")], layouts=["C2d", "F2d"], n=(4, 4))
def _(es, A, o, ctx):
    m = A["m"]
    return es.stat.cov2cor(m)


@call("stat.cor2cov", [("m", "pos"), ("d", "pos")], layouts=["contig", "strided", "offset"], n=(3, 3))
def _(es, A, o, ctx):
    c = np.eye(A["d"].size) * 1.0
    return es.stat.cor2cov(c, A["d"])


# ---- matching / de-duplication --------------------------------------------------------------

@call("numpy_util.match", [("a1", "uniq"), ("a2", "small")], {"presorted": [False, True], "fn": ["match", "match_multi"]})
def _(es, A, o, ctx):
    a1 = A["a1"]
    if o["presorted"]:
        return getattr(es.numpy_util, o["fn"])(a1, A["a2"], presorted=True)
    return getattr(es.numpy_util, o["fn"])(a1, A["a2"])


@call("numpy_util.unique", [("a", "small")], {"values": [False, True]})
def _(es, A, o, ctx):
    return es.numpy_util.unique(A["a"], values=o["values"])


@call("numpy_util.rem_dup", [("a", "small"), ("flag", "data")], {"values": [False, True]},
      edges={"flag": [float("nan"), float("inf"), float("-inf"), 1e300]})
def _(es, A, o, ctx):
    return es.numpy_util.rem_dup(A["a"], A["flag"], values=o["values"])


@call("numpy_util.splitarray", [("a", "data")], {"nper": [1, 3]})
def _(es, A, o, ctx):
    return es.numpy_util.splitarray(o["nper"], A["a"])


# ---- byte-order conversion of plain arrays (inplace off) ---------------------------------------

for _nm in ["to_native", "to_big_endian", "to_little_endian", "byteswap"]:
    def _mk2(nm):
        @call("numpy_util.%s" % nm, [("a", "data")], {"keep_dtype": [False, True]}, layouts=LAY0 + ["F2d", "C2d"])
        def _(es, A, o, ctx):
            return getattr(es.numpy_util, nm)(A["a"], inplace=False, keep_dtype=o["keep_dtype"])
    _mk2(_nm)


@call("numpy_util.is_big/little_endian", [("a", "data")], layouts=LAY0)
def _(es, A, o, ctx):
    return es.numpy_util.is_big_endian(A["a"]), es.numpy_util.is_little_endian(A["a"])


# ---- cosmology -----------------------------------------------------------------------------------

for _nm in ["Dc", "Dm", "Da", "Dl", "V", "sigmacritinv", "Ezinv_integral"]:
    def _mk3(nm):
        @call("cosmology." + nm, [("z1", "z"), ("z2", "z")], {"flat": [True, False], "scalar": ["none", "z1", "z2"]},
              layouts=LAY0)
        def _(es, A, o, ctx):
            c = es.cosmology.Cosmo(omega_m=0.3, omega_l=0.6, omega_k=0.1, flat=False) if not o["flat"] \
                else es.cosmology.Cosmo()
            z1 = 0.1 if o["scalar"] == "z1" else A["z1"]
            z2 = 3.5 if o["scalar"] == "z2" else A["z2"]
            return getattr(c, nm)(z1, z2)
    _mk3(_nm)

for _nm in ["distmod", "dV", "Ez_inverse"]:
    def _mk4(nm):
        @call("cosmology." + nm, [("z", "z")], {"flat": [True, False]}, layouts=LAY0)
        def _(es, A, o, ctx):
            c = es.cosmology.Cosmo(omega_m=0.3, omega_l=0.6, omega_k=0.1, flat=False) if not o["flat"] \
                else es.cosmology.Cosmo()
            return getattr(c, nm)(A["z"])
    _mk4(_nm)


# ---- HTM -------------------------------------------------------------------------------------------

@call("htm.lookup_id", [("ra", "lon"), ("dec", "lat")], {"depth": [3, 10]}, layouts=LAY0)
def _(es, A, o, ctx):
    return es.htm.HTM(o["depth"]).lookup_id(A["ra"], A["dec"])


@call("htm.match", [("ra1", "lon_cl"), ("dec1", "lat_cl"), ("ra2", "lon_cl"), ("dec2", "lat_cl"), ("radius", "rad")],
      {"maxmatch": [-1, 1, 2], "radscalar": [False, True], "tofile": [False, True]},
      edges={"radius": [180.0, 181.0, 200.0, 0.0]})
def _(es, A, o, ctx):
    h = es.htm.HTM(7)
    rad = 0.05 if o["radscalar"] else A["radius"]
    kw = {}
    if o["tofile"]:
        kw["file"] = ctx.tmpfile("pairs.bin")
    return h.match(A["ra1"], A["dec1"], A["ra2"], A["dec2"], rad, maxmatch=o["maxmatch"], **kw)


@call("htm.Matcher", [("ra1", "lon_cl"), ("dec1", "lat_cl"), ("ra2", "lon_cl"), ("dec2", "lat_cl"), ("radius", "rad")],
      {"maxmatch": [-1, 1], "radscalar": [False, True]}, edges={"radius": [180.0, 181.0, 200.0, 0.0]})
def _(es, A, o, ctx):
    m = es.htm.Matcher(7, A["ra2"], A["dec2"])
    rad = 0.05 if o["radscalar"] else A["radius"]
    return m.match(A["ra1"], A["dec1"], rad, maxmatch=o["maxmatch"])


@call("htm.bincount", [("ra1", "lon_cl"), ("dec1", "lat_cl"), ("ra2", "lon_cl"), ("dec2", "lat_cl"), ("scale", "scale")],
      {"scale": ["none", "scalar", "array"], "precomputed": [False, True, "ids-only"]})
def _(es, A, o, ctx):
    h = es.htm.HTM(6)
    kw = {}
    if o["scale"] == "scalar":
        kw["scale"] = 1.5
    elif o["scale"] == "array":
        kw["scale"] = A["scale"]
    if o["precomputed"]:
        ids = h.lookup_id(A["ra2"], A["dec2"])
        minid, maxid = int(ids.min()), int(ids.max())
        hist, rev = es.stat.histogram(ids - minid, rev=True)
        kw.update(htmid2=ids, htmrev2=rev, minid=minid, maxid=maxid)
        if o["precomputed"] == "ids-only":
            kw = dict((k, v) for k, v in kw.items() if k not in ("htmrev2", "minid", "maxid"))
        # the precomputed arrays are arguments too
        _watch(A, "htmid2", ids)
        if "htmrev2" in kw:
            _watch(A, "htmrev2", rev)
    return h.bincount(0.001, 0.2, 4, A["ra1"], A["dec1"], A["ra2"], A["dec2"], **kw)


# ---- WCS -------------------------------------------------------------------------------------------

TAN_HDR = {"naxis": 2, "naxis1": 2048, "naxis2": 4096, "ctype1": "RA---TAN", "ctype2": "DEC--TAN",
           "crpix1": 1024.5, "crpix2": 2048.5, "cd1_1": -7.3e-5, "cd1_2": 1e-7, "cd2_1": 2e-7, "cd2_2": 7.3e-5,
           "cunit1": "deg", "cunit2": "deg", "crval1": 35.5, "crval2": -7.8}
TPV_HDR = dict(TAN_HDR, ctype1="RA---TPV", ctype2="DEC--TPV", pv1_0=-1e-4, pv1_1=1.001, pv1_2=-2e-4, pv1_4=1e-3,
               pv1_5=-2e-3, pv1_6=1e-3, pv2_0=1e-4, pv2_1=0.999, pv2_2=3e-4, pv2_4=-1e-3, pv2_5=1e-3, pv2_6=2e-3)


@call("wcs.image2sky", [("x", "pix"), ("y", "pix")], {"hdr": ["tan", "tpv"], "distort": [True, False]}, layouts=LAY0)
def _(es, A, o, ctx):
    w = es.wcsutil.WCS(dict(TAN_HDR if o["hdr"] == "tan" else TPV_HDR))
    return w.image2sky(A["x"], A["y"], distort=o["distort"])


@call("wcs.sky2image", [("ra", "ra_wcs"), ("dec", "dec_wcs")], {"hdr": ["tan", "tpv"], "find": [True, False],
                                                              "distort": [True, False]}, layouts=LAY0, n=(1, 5))
def _(es, A, o, ctx):
    w = es.wcsutil.WCS(dict(TAN_HDR if o["hdr"] == "tan" else TPV_HDR))
    return w.sky2image(A["ra"], A["dec"], find=o["find"], distort=o["distort"])


@call("wcs.get_jacobian", [("x", "pix"), ("y", "pix")], {"hdr": ["tan", "tpv"], "distort": [True, False]}, layouts=LAY0)
def _(es, A, o, ctx):
    w = es.wcsutil.WCS(dict(TAN_HDR if o["hdr"] == "tan" else TPV_HDR))
    return w.get_jacobian(A["x"], A["y"], distort=o["distort"])


@call("wcs.wrap_ra_diff", [("dra", "dra")], {}, layouts=LAY0, edges={"dra": [180.0, -180.0, 540.0, 0.0, 180.00000000000003]})
def _(es, A, o, ctx):
    return es.wcsutil.wrap_ra_diff(A["dra"])


# ---- integrate ---------------------------------------------------------------------------------------

@call("integrate.qgauss", [("x", "sorted"), ("y", "data")], {"npts": [3, 10]}, n=(2, 15))
def _(es, A, o, ctx):
    return es.integrate.qgauss(A["x"], A["y"], o["npts"])


# ------------------------------------------------------------------------------------------
# numeric-argument sub-check
# ------------------------------------------------------------------------------------------

@st.composite
def numeric_cases(draw):
    name = draw(st.sampled_from(sorted(CALLS)))
    c = CALLS[name]
    n = draw(st.integers(c["n"][0], c["n"][1]))
    common_layout = draw(st.sampled_from(c["layouts"]))
    args = {}
    for an, kind in c["args"]:
        lay = common_layout if common_layout in ("0d", "F2d", "C2d") else draw(st.sampled_from(
            [x for x in c["layouts"] if x not in ("0d", "F2d", "C2d")] or c["layouts"]))
        args[an] = {"dtype": draw(st.sampled_from(c["dtypes"])), "order": draw(st.sampled_from(["native", "native", "swapped"])),
                    "layout": lay}
    opts = {k: draw(st.sampled_from(v)) for k, v in sorted(c["opts"].items())}
    case = {"call": name, "n": n, "seed": draw(st.integers(0, 2 ** 31 - 1)), "args": args, "opts": opts}
    if c["edges"]:
        case["edge"] = draw(st.booleans())
        if case["edge"]:
            for an in sorted(c["edges"]):
                args[an]["dtype"] = draw(st.sampled_from(["f8", "f8", "f4"]))     # the special values are floats
    return case


def check_numeric(case, ctx):
    import esutil as es
    c = CALLS[case["call"]]
    rng = np.random.Generator(np.random.PCG64(case["seed"]))
    n = case["n"]
    if case["call"] == "stat.cov2cor":
        n = 16
    A, snaps = {}, []
    for an, kind in c["args"]:
        vals = _values(kind, n, rng)
        if case["call"] == "stat.cov2cor":
            m = vals.reshape(4, 4)
            vals = (m @ m.T + 4 * np.eye(4)).reshape(-1)
            var = dict(case["args"][an])
            view, base = _materialize(vals, dict(var, layout="contig"))
            base = base.reshape(4, 4)
            if var["layout"] == "F2d":
                base = np.asfortranarray(base)
            view = base
        else:
            if case.get("edge") and an in c["edges"] and np.dtype(case["args"][an]["dtype"]).kind == "f":
                sp = c["edges"][an]
                vals = np.array(vals, dtype="f8")
                for pos in rng.integers(0, vals.size, size=min(3, vals.size)).tolist():
                    vals[pos] = sp[int(rng.integers(0, len(sp)))]
            view, base = _materialize(vals, case["args"][an])
        A[an] = view
        snaps.append((an, view, base, _snap(view, base)))
    r = sut(c["fn"], es, A, case["opts"], ctx)
    if isinstance(r, Raised):
        ctx.count("raised:%s:%s" % (case["call"], type(r.exc).__name__))
    else:
        ctx.count("returned:%s" % case["call"])
    for an, view, base, before in snaps + A.get("__watch__", []):
        after = _snap(view, base)
        for what, b, a in zip(("dtype", "dtype string", "shape", "strides", "writeable flag", "buffer bytes",
                               "base dtype", "base shape", "base strides"), before, after):
            if what == "dtype":
                ok = a is b or a == b
            else:
                ok = a == b
            require(ok, "%s%s: argument %r (%s) was modified: %s changed%s", case["call"], case["opts"], an,
                    case["args"].get(an, "built from esutil results"), what,
                    "" if what == "buffer bytes" else " from %r to %r" % (b, a))


def classify_numeric(case):
    labs = ["call:" + case["call"]]
    if case.get("edge"):
        labs.append("edge-values-planted")
    nt = False
    for an, v in case["args"].items():
        if v["order"] == "swapped" or v["layout"] in ("strided", "F2d") or v["dtype"] != "f8":
            nt = True
        labs.append("layout:" + v["layout"])
        labs.append("dtype:" + v["dtype"] + ("-swapped" if v["order"] == "swapped" else ""))
    if nt:
        labs.append("nt:conversion-forced")
    return sorted(set(labs))


# ------------------------------------------------------------------------------------------
# structured-array sub-check (record-file writers, field operations, byte order of tables)
# ------------------------------------------------------------------------------------------

STRUCT_CALLS = ["sfile.write", "sfile.write-text", "SFile.write", "SFile.write-text", "Recfile.write",
                "Recfile.write-text", "recfile.write", "io.write", "io.write-text", "sfile.write-append",
                "Recfile.write-readonly-text", "Recfile.write-readonly",
                "extract_fields", "remove_fields", "add_fields", "add_fields-defaults", "reorder_fields",
                "combine_fields", "copy_fields-source", "copy_fields_by_name-vals", "split_fields", "compare_arrays",
                "to_native", "to_big_endian", "to_little_endian", "byteswap", "to_native-keep", "byteswap-keep",
                "is_big_endian", "match-field", "histogram-field"]


@st.composite
def struct_cases(draw):
    name = draw(st.sampled_from(STRUCT_CALLS))
    text = name.endswith("-text")
    t = draw(T.tables(kind="text" if text else "binary", max_fields=5, max_rows=12, big_rows=0,
                      types=T.INTS + T.FLOATS, allow_mixed_order=True))
    case = {"call": name, "table": t, "layout": draw(st.sampled_from(["contig", "contig", "strided", "offset", "aligned"])),
            "delim": draw(st.sampled_from([",", " ", "\t"])), "pick": draw(st.integers(0, 10 ** 6))}
    if text:
        # the text writers' documented options, and an earlier write of a native table through the same handle
        case["padnull"] = draw(st.booleans())
        case["ignorenull"] = draw(st.sampled_from([False, False, True]))
        case["native_first"] = draw(st.booleans())
    return case


def _struct_view(case):
    data = T.build(case["table"])
    n = data.size
    if case["layout"] == "strided":
        base = np.zeros(2 * n + 3, dtype=data.dtype)
        base.view("u1")[:] = 7
        base[1:1 + 2 * n:2] = data
        return base[1:1 + 2 * n:2], base
    if case["layout"] == "offset":
        base = np.zeros(n + 4, dtype=data.dtype)
        base.view("u1")[:] = 7
        base[2:2 + n] = data
        return base[2:2 + n], base
    if case["layout"] == "aligned":
        # an aligned record layout (C struct style): padding bytes between the fields belong to the caller's
        # buffer as well; they are filled with a pattern that must survive the call
        adt = np.dtype({"names": list(data.dtype.names),
                        "formats": [data.dtype.fields[nm][0] for nm in data.dtype.names]}, align=True)
        base = np.zeros(n, dtype=adt)
        base.view("u1")[:] = 0xAB
        for nm in data.dtype.names:
            base[nm] = data[nm]
        return base, base
    base = data.copy()
    return base, base


def check_struct(case, ctx):
    import esutil as es
    from esutil import recfile, sfile
    nu = es.numpy_util
    view, base = _struct_view(case)
    names = list(view.dtype.names)
    pick = case["pick"]
    some = names[pick % len(names)]
    before = _snap(view, base)
    extra = []
    name = case["call"]
    fname = ctx.tmpfile("t.rec")
    delim = case["delim"]

    tkw = {}
    if case.get("padnull"):
        tkw["padnull"] = True
    if case.get("ignorenull"):
        tkw["ignorenull"] = True
    nat = None
    if case.get("native_first"):
        nat = np.ascontiguousarray(view).astype(view.dtype.newbyteorder("="))
        extra.append((nat, nat, _snap(nat, nat)))

    def run():
        if name == "sfile.write":
            return sfile.write(fname, view)
        if name == "sfile.write-text":
            return sfile.write(fname, view, delim=delim, **tkw)
        if name == "sfile.write-append":
            sfile.write(fname, view)
            return sfile.write(fname, view, append=True)
        if name in ("SFile.write", "SFile.write-text"):
            with sfile.SFile(fname, "w", delim=delim if name.endswith("-text") else None, **tkw) as sf:
                if nat is not None:
                    sf.write(nat)
                sf.write(view)
                sf.write(view)
            return None
        if name in ("Recfile.write", "Recfile.write-text"):
            with recfile.Recfile(fname, "w", delim=delim if name.endswith("-text") else None, **tkw) as r:
                if nat is not None:
                    r.write(nat)
                r.write(view)
            return None
        if name in ("Recfile.write-readonly-text", "Recfile.write-readonly"):
            # a write that fails (the file was opened for reading): the argument is left alone all the same
            dl = delim if name.endswith("-text") else None
            natv = np.ascontiguousarray(view).astype(view.dtype.newbyteorder("="))
            with recfile.Recfile(fname, "w", delim=dl) as r:
                r.write(natv)
            with recfile.Recfile(fname, "r", dtype=natv.dtype, delim=dl, nrows=natv.size) as r:
                return r.write(view)
        if name == "recfile.write":
            return recfile.write(fname, view)
        if name == "io.write":
            return es.io.write(fname, view)
        if name == "io.write-text":
            return es.io.write(fname, view, delim=delim, **tkw)
        if name == "extract_fields":
            return nu.extract_fields(view, [some])
        if name == "remove_fields":
            return nu.remove_fields(view, [some]) if len(names) > 1 else nu.extract_fields(view, names)
        if name == "add_fields":
            return nu.add_fields(view, [("zz_new", "f8"), ("zz_new2", "i4", 2)])
        if name == "add_fields-defaults":
            d = np.arange(view.size, dtype=">f8")
            extra.append((d, d, _snap(d, d)))
            return nu.add_fields(view, [("zz_new", "f8")], defaults=[d])
        if name == "reorder_fields":
            return nu.reorder_fields(view, [names[-1]])
        if name == "combine_fields":
            other = np.zeros(view.size, dtype=[("zz_o1", ">i4"), ("zz_o2", "<f8")])
            extra.append((other, other, _snap(other, other)))
            return nu.combine_fields([view, other])
        if name == "copy_fields-source":
            target = np.zeros(view.size, dtype=view.dtype.newbyteorder("="))
            return nu.copy_fields(view, target)
        if name == "copy_fields_by_name-vals":
            target = np.zeros(view.size, dtype=view.dtype.newbyteorder("="))
            vals = np.ascontiguousarray(view[some])
            extra.append((vals, vals, _snap(vals, vals)))
            return nu.copy_fields_by_name(target, [some], [vals])
        if name == "split_fields":
            return nu.split_fields(view)
        if name == "compare_arrays":
            return nu.compare_arrays(view, view.copy(), verbose=False)
        if name == "to_native":
            return nu.to_native(view)
        if name == "to_big_endian":
            return nu.to_big_endian(view)
        if name == "to_little_endian":
            return nu.to_little_endian(view)
        if name == "byteswap":
            return nu.byteswap(view)
        if name == "to_native-keep":
            return nu.to_native(view, keep_dtype=True)
        if name == "byteswap-keep":
            return nu.byteswap(view, keep_dtype=True)
        if name == "is_big_endian":
            return nu.is_big_endian(view[some]), nu.is_little_endian(view[some])
        if name == "match-field":
            col = view[some]
            if col.ndim != 1:
                col = col.reshape(col.shape[0], -1)[:, 0]
            u = np.unique(col)
            return nu.match(u, col)
        if name == "histogram-field":
            col = view[some]
            if col.ndim != 1:
                col = col.reshape(col.shape[0], -1)[:, 0]
            col = np.where(np.isfinite(col.astype("f8")), col.astype("f8") % 10.0, 0.0) if col.dtype.kind == "f" else col
            return es.stat.histogram(col, nbin=3, rev=True)
        raise KeyError(name)

    with np.errstate(all="ignore"):
        r = sut(run)
    if isinstance(r, Raised):
        ctx.count("raised:%s:%s" % (name, type(r.exc).__name__))
    else:
        ctx.count("returned:%s" % name)
    after = _snap(view, base)
    for what, b, a in zip(("dtype", "dtype descr", "shape", "strides", "writeable flag", "buffer bytes",
                           "base dtype", "base shape", "base strides"), before, after):
        require(a == b, "%s: the structured array passed in (%s layout, descr %r) was modified: %s changed%s", name,
                case["layout"], case["table"]["descr"], what,
                "" if what == "buffer bytes" else " from %r to %r" % (b, a))
    for v, b, snap in extra:
        require(_snap(v, b) == snap, "%s: an auxiliary array argument was modified", name)


def classify_struct(case):
    labs = set(T.describe(case["table"]))
    labs.add("call:" + case["call"])
    labs.add("layout:" + case["layout"])
    if "big-endian" in labs or case["layout"] == "strided":
        labs.add("nt:conversion-forced")
    return sorted(labs)


SUBCHECKS = [
    Subcheck("numeric", numeric_cases, check_numeric, classify_numeric, quick=16000, thorough=200000),
    Subcheck("structured", struct_cases, check_struct, classify_struct, quick=7500, thorough=100000),
]
