"""C13 -- HTM ids are hierarchical and cover circles; pair counts equal brute force.

Oracles (none of them calls esutil to compute an expectation):
* id algebra (range, parent = id >> 2, scalar == array) plus an independent longdouble model
  of the mesh (vp/oracle/htmtri.py): the returned triangle must contain the position;
* circle cover: longdouble separations of probes / of the model's triangle vertices;
* pair counts: brute-force all-pairs longdouble separations binned with exact edge tests.
"""
import math

import numpy as np
from hypothesis import strategies as st

from vp.api import Subcheck, must, require, sut
from vp.gen import htmsets, sky
from vp.oracle import htmtri, sphere

PROPERTY = "C13"
RULE = ("ids: 1..16 positions (uniform, poles, seam, special longitudes, octahedron edges lon=90k/lat=0 "
        "+-{0,1e-300,1e-15..1e-6}, points on/within 1e-12..1e-6 deg of an edge or vertex of a model "
        "triangle of depth 0..20) as f8/f4/byte-swapped/strided/list and as python/numpy scalars; "
        "every depth 0..20 is looked up in every case. intersect: depth 1..12 and radius 1e-4..90 deg "
        "drawn jointly (covered leaf triangles <= cap), centre from the same families, probes built in "
        "longdouble inside (<= r-1e-9..) and in the ring (r+1e-9, 1.5r] plus the vertices of every "
        "reported triangle from the model. bincount: two point sets (explicit points incl. neighbours "
        "at separations on/next to bin edges, below rmin, above rmax + bulk caps/uniform/seam), "
        "rmin<rmax, nbin 1..30, scale None/scalar/per point, with/without precomputed "
        "htmid2/htmrev2/minid/maxid. Non-trivial: ids case with a position within 1e-6 deg of a "
        "triangle edge at some depth >= 2; circle covering >= 4 leaf triangles; pair count with >= 2 "
        "non-empty bins. Distinct = distinct case JSON."
        " The per-point scale is passed in every container kind (f8, f4, byte-swapped, strided, list); bincount is called twice with the same precomputed id objects.")
RULE += (" " + 'Also: a second lookup_id on the same HTM object (same number of positions, reversed) and the earlier id array compared with its copy; a lookup between computing and using precomputed ids.')
ASSUMPTIONS = [
    "longitudes are in [0, 360], latitudes in [-90, 90] (positions on the sphere); no NaN/inf",
    "a returned triangle 'contains' the position up to 0.5% of the triangle's edge length + 1e-9 deg "
    "(the library locates points with an absolute 1e-15 tolerance on un-normalised edge normals)",
    "circle radii 1e-4..90 deg, intersect depth 1..12, (radius, depth) limited so that one circle covers "
    "<= 2e3 (quick) / 5e4 (thorough) leaf triangles (cost bound, DESIGN.md C13 B)",
    "bincount depth <= 8 (quick) / 10 (thorough): it allocates maxid-minid+1 counters; the largest "
    "searched angle rmax/scale is <= 180 deg and obeys the same triangle cap",
    "pairs whose separation is within 1e-9 relative (+1e-9 deg absolute) of a bin edge / rmax are free",
    "precomputed htmid2/htmrev2/minid/maxid are produced exactly as documented in the bincount docstring",
]
TECHNIQUE = ("Hypothesis-generated positions/circles/point sets; independent longdouble HTM mesh model, "
             "longdouble great-circle separations, brute-force pair counting")
LEVEL_TEXT = ("exploration: generated search with independent oracles over positions incl. mesh-edge "
              "families, depths 0..20 (ids) / 1..12 (cover), radii 1e-4..90 deg under a stated cost cap")

TOL = 1e-9          # degrees, the statement's band
MAXDEPTH_ID = 20


def selftest():
    sphere.selftest()
    htmtri.selftest()


def _slack(depth):
    return 5e-3 * htmtri.edge_len_deg(depth) + 1e-9


# =============================================================================================
# ids
# =============================================================================================
@st.composite
def ids_cases(draw):
    pts = draw(st.lists(htmsets.any_point(), min_size=1, max_size=draw(st.sampled_from([1, 3, 8, 16]))))
    return {"pts": pts,
            "container": draw(st.sampled_from(htmsets.CONTAINERS)),
            "scalar": draw(st.sampled_from(["float", "npfloat", "0d", "len1"])),
            "depth": draw(st.integers(0, MAXDEPTH_ID))}


def _scalar(x, kind, f4):
    x = np.float32(x) if f4 else float(x)
    if kind == "float":
        return x if f4 else float(x)
    if kind == "npfloat":
        return x if f4 else np.float64(x)
    if kind == "0d":
        return np.array(x)
    return np.array([x])


def check_ids(case, ctx):
    import esutil
    lon, lat = sky.as_arrays(case["pts"])
    n = lon.size
    ra_c, ra = htmsets.as_container(lon, case["container"])
    dec_c, dec = htmsets.as_container(lat, case["container"])
    ids = []
    for d in range(MAXDEPTH_ID + 1):
        h = esutil.htm.HTM(d)
        require(must(h.get_depth) == d, "HTM(%d).get_depth() != %d", d, d)
        r = must(h.lookup_id, ra_c, dec_c)
        require(isinstance(r, np.ndarray) and r.shape == (n,) and r.dtype == np.dtype("i8"),
                "lookup_id at depth %d returned %r (dtype/shape), expected int64 (%d,)", d,
                (getattr(r, "dtype", None), getattr(r, "shape", None)), n)
        lo, hi = 8 * 4 ** d, 16 * 4 ** d
        for i, v in enumerate(r.tolist()):
            require(lo <= v < hi, "depth %d: id %d of (%r,%r) outside [%d,%d)", d, v, ra[i], dec[i], lo, hi)
        ids.append(r)
    for d in range(MAXDEPTH_ID):
        bad = np.nonzero((ids[d + 1] >> 2) != ids[d])[0]
        require(bad.size == 0, "id at depth %d is not a child of the id at depth %d for (%r,%r): %d vs %d",
                d + 1, d, ra[bad[0]] if bad.size else None, dec[bad[0]] if bad.size else None,
                int(ids[d + 1][bad[0]]) if bad.size else 0, int(ids[d][bad[0]]) if bad.size else 0)
    # ids handed out earlier stay what they were when the same HTM object looks up other positions (of the same
    # number) afterwards, and that later call answers for its own arguments
    hh = esutil.htm.HTM(case["depth"])
    first = must(hh.lookup_id, ra_c, dec_c)
    first_copy = np.array(first, copy=True)
    later = must(hh.lookup_id, ra[::-1].copy(), dec[::-1].copy())
    require(np.array_equal(first, first_copy), "the id array returned by lookup_id changed when the same HTM object "
            "looked up other positions: now %r, was %r", np.asarray(first).tolist()[:6], first_copy.tolist()[:6])
    require(np.array_equal(first_copy, ids[case["depth"]]) and np.array_equal(later, ids[case["depth"]][::-1]),
            "a second lookup_id call on one HTM object (same number of positions, reversed order) returned %r, "
            "expected %r", np.asarray(later).tolist()[:6], ids[case["depth"]][::-1].tolist()[:6])
    # scalar calls
    f4 = case["container"] == "f4"
    for d in sorted(set([case["depth"], MAXDEPTH_ID])):
        h = esutil.htm.HTM(d)
        for i in range(min(n, 6)):
            a = _scalar(ra[i], case["scalar"], f4)
            b = _scalar(dec[i], case["scalar"], f4)
            r = must(h.lookup_id, a, b)
            r = np.asarray(r)
            require(r.size == 1 and int(r.reshape(-1)[0]) == int(ids[d][i]),
                    "depth %d: scalar lookup_id(%r,%r) = %r but the array call gave %d", d, a, b,
                    r.tolist(), int(ids[d][i]))
    # geometry: the triangle contains the position (independent mesh model)
    for d in sorted(set([case["depth"], MAXDEPTH_ID])):
        out = htmtri.outside_by(ids[d], d, ra, dec)
        j = int(np.argmax(out))
        require(float(out[j]) <= _slack(d),
                "depth %d: (%r,%r) got id %d but lies %.3g deg outside that triangle (edge %.3g deg)",
                d, ra[j], dec[j], int(ids[d][j]), float(out[j]), htmtri.edge_len_deg(d))


def classify_ids(case):
    lon, lat = sky.as_arrays(case["pts"])
    if case["container"] == "f4":
        lon, lat = lon.astype("f4").astype("f8"), lat.astype("f4").astype("f8")
    _, margin = htmtri.locate(lon, lat, MAXDEPTH_ID)
    labs = ["container:" + case["container"], "scalar:" + case["scalar"]]
    near = np.abs(margin[2:]) <= 1e-6           # (levels>=2, n)
    if near.any():
        labs.append("nt:near-edge")
        lev = 2 + int(np.argmax(near.any(axis=1)))
        labs.append("near-edge-first-level:%s" % (lev if lev < 5 else "5-12" if lev <= 12 else "13-20"))
    if (np.abs(margin[0]) <= 1e-6).any():
        labs.append("near-octant-edge")
    if (np.abs(lat) == 90.0).any():
        labs.append("pole")
    if ((lon == 0.0) | (lon == 360.0)).any():
        labs.append("seam")
    return labs


# =============================================================================================
# intersect
# =============================================================================================
@st.composite
def circle_cases(draw):
    depth = draw(st.integers(1, 12))
    rmax = min(90.0, htmsets.max_radius(depth, htmsets.cap()))
    hi = math.log10(rmax)
    radius = draw(st.one_of(htmsets.pow10(-4.0, hi), htmsets.pow10(max(-4.0, hi - 1.0), hi)))
    radius = min(radius, rmax)
    centre = draw(htmsets.any_point())
    return {"depth": depth, "radius": radius, "centre": centre,
            "seed": draw(st.integers(0, 2 ** 32 - 1)), "nprobe": draw(st.sampled_from([8, 40, 120]))}


def _probes(case):
    """Probe points (float64 lon/lat) around the circle, deterministic from the case."""
    rng = np.random.Generator(np.random.PCG64(int(case["seed"])))
    r = float(case["radius"])
    n = int(case["nprobe"])
    c = case["centre"]
    # inside: uniform in area, hugging the boundary, at the centre
    f_in = np.concatenate([np.sqrt(rng.uniform(0, 1, n)), 1.0 - 10.0 ** rng.uniform(-9, -1, n)])
    d_in = np.minimum(f_in * r, r - 2e-9)
    d_in = np.concatenate([d_in[d_in > 0], [0.0]])
    # ring: just outside .. 1.5 r
    d_out = np.concatenate([r + 2e-9 + r * 10.0 ** rng.uniform(-9, -0.31, n), r * rng.uniform(1.0, 1.5, n) + 2e-9])
    d_out = np.minimum(d_out, 180.0)
    d = np.concatenate([d_in, d_out])
    b = rng.uniform(0, 360, d.size)
    lo, la = sphere.destination(np.full(d.size, c[0]), np.full(d.size, c[1]), b, d)
    lon = np.asarray(lo, dtype="f8")
    lat = np.clip(np.asarray(la, dtype="f8"), -90.0, 90.0)
    lon = np.where(lon >= 360.0, 0.0, lon)
    return lon, lat


def check_intersect(case, ctx):
    import esutil
    depth, r, c = int(case["depth"]), float(case["radius"]), case["centre"]
    h = esutil.htm.HTM(depth)
    inc = must(h.intersect, c[0], c[1], r)
    inc2 = must(h.intersect, c[0], c[1], r, inclusive=True)
    full = must(h.intersect, c[0], c[1], r, inclusive=False)
    for name, a in (("inclusive", inc), ("inclusive=True", inc2), ("full", full)):
        require(isinstance(a, np.ndarray) and a.ndim == 1 and a.dtype == np.dtype("i8"),
                "intersect (%s) returned %r, expected 1-d int64", name, type(a))
        lst = a.tolist()
        require(len(set(lst)) == len(lst), "intersect (%s) lists a triangle twice", name)
        require(all(htmtri.valid_id(v, depth) for v in lst), "intersect (%s) returns ids that are not "
                "depth-%d ids: %r", name, depth, [v for v in lst if not htmtri.valid_id(v, depth)][:5])
    require(np.array_equal(inc, inc2), "intersect() default differs from inclusive=True")
    # the flag is a truth value: 1 / numpy.True_ mean inclusive, 0 / numpy.False_ mean full
    for flag, same_as, nm in ((1, inc2, "inclusive=1"), (np.True_, inc2, "inclusive=numpy.True_"),
                              (0, full, "inclusive=0"), (np.False_, full, "inclusive=numpy.False_")):
        got = must(h.intersect, c[0], c[1], r, inclusive=flag)
        require(np.array_equal(got, same_as), "intersect(%s) returns %d triangles, inclusive=%s returns %d", nm,
                np.size(got), bool(flag), same_as.size)
    sinc, sfull = set(inc.tolist()), set(full.tolist())
    require(sfull <= sinc, "fully-inside triangles missing from the inclusive list: %r",
            sorted(sfull - sinc)[:5])
    # probes
    plon, plat = _probes(case)
    s = sphere.sep(c[0], c[1], plon, plat)
    inside = np.asarray(s <= r - TOL)
    ring = np.asarray(s >= r + TOL)
    pid = must(h.lookup_id, plon, plat)
    for j in np.nonzero(inside)[0]:
        require(int(pid[j]) in sinc, "position (%r,%r) is %.12g deg from the centre (radius %.12g) but its "
                "triangle %d (depth %d) is not in the intersect list", plon[j], plat[j], float(s[j]), r,
                int(pid[j]), depth)
    for j in np.nonzero(ring)[0]:
        require(int(pid[j]) not in sfull, "position (%r,%r) is %.12g deg from the centre, outside radius "
                "%.12g, but its triangle %d is reported as fully inside", plon[j], plat[j], float(s[j]), r,
                int(pid[j]))
    # independent of lookup_id: the centre's model triangle(s) / inside probes are covered geometrically
    if inc.size:
        verts = htmtri.vertices(inc, depth)
        pv = sphere.unitvec(plon[inside], plat[inside]).reshape(-1, 3)
        for k in range(pv.shape[0]):
            dist = htmtri.edge_distance(verts, np.repeat(pv[k:k + 1], verts.shape[0], axis=0)).min(axis=-1)
            require(float(dist.max()) >= -_slack(depth), "inside position (%r,%r) lies in none of the %d "
                    "listed triangles (best misses by %.3g deg)", plon[inside][k], plat[inside][k],
                    inc.size, -float(dist.max()))
    else:
        require(not inside.any(), "intersect returned no triangle for radius %r at depth %d", r, depth)
    # fully-inside triangles: all three model vertices are inside the circle
    if full.size:
        fv = htmtri.vertices(full, depth).reshape(-1, 3)
        cv = sphere.unitvec(c[0], c[1])
        sv = sphere.sep_vec(np.broadcast_to(cv, fv.shape), fv)
        j = int(np.argmax(sv))
        require(float(sv[j]) <= r + TOL, "triangle %d is reported fully inside the circle but one of its "
                "vertices is %.12g deg from the centre (radius %.12g)", int(full[j // 3]), float(sv[j]), r)
    ctx.count("probes-inside", int(inside.sum()))
    ctx.count("probes-ring", int(ring.sum()))
    ctx.count("full-triangles", int(full.size))


def classify_intersect(case):
    depth, r = int(case["depth"]), float(case["radius"])
    nt = htmsets.tri_count(r, depth)
    labs = ["depth:%s" % (depth if depth < 4 else "4-8" if depth <= 8 else "9-12"),
            "radius:1e%d" % math.floor(math.log10(r)),
            "covered:%s" % ("<1" if nt < 1 else "1-4" if nt < 4 else "4-100" if nt < 100 else ">=100")]
    if nt >= 4:
        labs.append("nt:covers>=4")
    c = case["centre"]
    if abs(c[1]) > 90.0 - 1.5 * r:
        labs.append("pole-in-reach")
    if min(c[0], 360.0 - c[0]) * math.cos(math.radians(c[1])) < r:
        labs.append("seam-in-reach")
    return labs


# =============================================================================================
# bincount
# =============================================================================================
@st.composite
def bincount_cases(draw):
    confined = draw(st.sampled_from([False, False, False, True]))
    thorough = htmsets.tier() == "thorough"
    dmax = (12 if confined else 10 if thorough else 8)
    depth = draw(st.sampled_from(list(range(1, dmax + 1))))
    amax = min(180.0, htmsets.max_radius(depth, htmsets.cap()))
    hi = math.log10(amax)
    kind = draw(st.integers(0, 9))
    tmax = draw(htmsets.pow10(-3.5, min(hi, 1.0)) if kind <= 5 else htmsets.pow10(-3.5, hi))
    tmax = min(tmax, amax)
    tmin = max(1e-4, tmax * 10.0 ** (-draw(st.floats(0.05, 3.0))))
    if tmin >= tmax:
        tmin = tmax / 1.5
    nbin = draw(st.sampled_from([1, 2, 3, 5, 10, 17, 30]))
    smode = draw(st.sampled_from(["none", "none", "scalar", "array"]))

    k1 = draw(st.sampled_from([1, 2, 4, 6]))
    if confined:
        # everything inside one depth-2 triangle: a cap around the centre of N3's middle child
        base = [45.0, 35.264389682754654]
        csize = 3.0
        pts1 = [htmsets.neighbour(base, draw(st.floats(0.0, 360.0)), csize * math.sqrt(draw(sky.unit)))
                for _ in range(k1)]
    else:
        first = draw(htmsets.any_point())
        csize = draw(htmsets.pow10(-3.0, 1.5))
        pts1 = [first]
        for _ in range(k1 - 1):
            if draw(st.booleans()):
                pts1.append(htmsets.neighbour(first, draw(st.floats(0.0, 360.0)), csize * math.sqrt(draw(sky.unit))))
            else:
                pts1.append(draw(htmsets.any_point()))
    if draw(st.integers(0, 2)) == 0:
        # the same position listed several times in a row (one object entered once per scale, a catalogue with
        # duplicates): every entry is a point of its own
        rep = []
        for p_ in pts1:
            rep += [list(p_)] * draw(st.integers(1, 3))
        pts1 = rep
    bulk1 = None
    tri = max(1.0, htmsets.tri_count(tmax, depth))
    budget = 1e6 if not thorough else 5e6
    if draw(st.sampled_from([False, False, True])):
        bulk1 = draw(htmsets.bulk(150))
        if confined:
            bulk1.update(kind="cap", centre=[45.0, 35.264389682754654], cap=3.0)
        bulk1["n"] = int(max(1, min(bulk1["n"], budget // tri)))
    n1 = len(pts1) + (bulk1["n"] if bulk1 else 0)
    scale = None
    if smode == "scalar":
        scale = draw(htmsets.pow10(-2.0, 3.0))
    elif smode == "array":
        s0 = draw(htmsets.pow10(-2.0, 3.0))
        fac = draw(st.lists(st.floats(1.0, 3.0), min_size=1, max_size=4))
        scale = [s0 * fac[i % len(fac)] for i in range(n1)]
    smin = 1.0 if scale is None else (scale if smode == "scalar" else min(scale))
    rmin = tmin if scale is None else math.radians(tmin) * smin
    rmax = tmax if scale is None else math.radians(tmax) * smin
    q = (rmax / rmin) ** (1.0 / nbin)

    def angle_of(r, i):
        """separation in degrees that point i sees at scaled separation r"""
        if scale is None:
            return r
        sc = scale if smode == "scalar" else scale[i]
        return math.degrees(r / sc)

    k2 = draw(st.sampled_from([1, 2, 4, 8, 16]))
    pts2 = []
    while len(pts2) < k2:
        i = draw(st.integers(0, len(pts1) - 1))
        fam = draw(st.sampled_from(["in", "in", "in", "edge", "edge", "below1", "below", "above", "dup", "far"]))
        b = draw(st.floats(0.0, 360.0))
        if fam == "far":
            pts2.append(draw(htmsets.any_point()) if not confined else
                        htmsets.neighbour([45.0, 35.264389682754654], b, 3.0 * draw(sky.unit)))
            continue
        if fam == "dup":
            pts2.append(list(pts1[i]))
            continue
        if fam == "in":
            r = rmin * (rmax / rmin) ** draw(sky.unit)
        elif fam == "edge":
            kk = draw(st.integers(0, nbin))
            r = rmin * q ** kk * (1.0 + draw(st.sampled_from([-1.0, 1.0])) * draw(st.sampled_from([3e-9, 1e-7, 1e-4])))
        elif fam == "below1":
            r = rmin * q ** (-draw(sky.unit)) * (1.0 - 3e-9)
        elif fam == "below":
            r = rmin * 10.0 ** (-draw(st.floats(0.0, 3.0))) * (1.0 - 3e-9)
        else:
            r = rmax * (1.0 + 3e-9 + draw(sky.unit))
        ang = min(angle_of(r, i), 180.0)
        if confined:
            ang = min(ang, 1.0)
        pts2.append(htmsets.neighbour(pts1[i], b, ang))
    bulk2 = None
    if draw(st.sampled_from([False, True])):
        if bulk1 is not None and draw(st.booleans()):
            bulk2 = dict(bulk1)
            bulk2["seed"] = draw(st.integers(0, 2 ** 32 - 1))
            bulk2["n"] = draw(st.sampled_from([5, 20, 60, 150]))
        else:
            bulk2 = draw(htmsets.bulk(150))
            if confined:
                bulk2.update(kind="cap", centre=[45.0, 35.264389682754654], cap=3.0)
            elif bulk2["kind"] == "cap" and draw(st.booleans()):
                bulk2["centre"] = list(pts1[0])
                bulk2["cap"] = max(1e-4, min(30.0, 1.5 * tmax))
    return {"depth": depth, "rmin": rmin, "rmax": rmax, "nbin": nbin, "scale": scale,
            "set1": {"pts": pts1, "bulk": bulk1}, "set2": {"pts": pts2, "bulk": bulk2},
            "pre": draw(st.sampled_from(["none", "ids", "ids+rev", "all", "all-lists"])),
            "container": draw(st.sampled_from(htmsets.CONTAINERS)), "confined": confined,
            "getbins": draw(st.sampled_from([True, True, False]))}


class BinTruth(object):
    def __init__(self, case):
        kind = case["container"]
        lon1, lat1 = htmsets.all_points(case["set1"])
        lon2, lat2 = htmsets.all_points(case["set2"])
        self.ra1_c, self.ra1 = htmsets.as_container(lon1, kind)
        self.dec1_c, self.dec1 = htmsets.as_container(lat1, kind)
        self.ra2_c, self.ra2 = htmsets.as_container(lon2, kind)
        self.dec2_c, self.dec2 = htmsets.as_container(lat2, kind)
        self.n1, self.n2 = self.ra1.size, self.ra2.size
        LD = sphere.LD
        self.rmin, self.rmax, self.nbin = float(case["rmin"]), float(case["rmax"]), int(case["nbin"])
        sc = case["scale"]
        sepdeg = sphere.sep(self.ra1[:, None], self.dec1[:, None], self.ra2[None, :], self.dec2[None, :])
        if sc is None:
            self.scale_c = None
            s = sepdeg
        else:
            if isinstance(sc, list):
                arr = np.array(sc, dtype="f8")
                # the per-point scale is an array argument like the coordinates: same container kinds
                # (f4 rounds the values, the truth then uses the rounded ones)
                self.scale_c, arr = htmsets.as_container(arr, kind)
                s = sepdeg * sphere.D2R * arr.astype(LD)[:, None]
            else:
                self.scale_c = float(sc)
                s = sepdeg * sphere.D2R * LD(float(sc))
        self.s = s
        # exact (longdouble) edges rmin * (rmax/rmin)**(k/nbin)
        k = np.arange(self.nbin + 1).astype(LD)
        lr0, lr1 = np.log10(LD(self.rmin)), np.log10(LD(self.rmax))
        self.edges = LD(10) ** (lr0 + (lr1 - lr0) * k / LD(self.nbin))
        pos = np.asarray(s > 0)
        u = np.full(s.shape, -np.inf, dtype=LD)
        u[pos] = (np.log10(s[pos]) - lr0) / ((lr1 - lr0) / LD(self.nbin))
        b = np.floor(u)
        self.bin = np.where(pos & (b >= 0) & (b < self.nbin), b, -1).astype(int)
        # free: within 1e-9 relative of any edge (the two nearest are enough)
        near = np.zeros(s.shape, dtype=bool)
        for e in self.edges:
            near |= np.asarray(np.abs(s - e) <= LD(1e-9) * e)
        self.free = near
        self.lo = np.zeros(self.nbin, dtype=int)       # required counts
        self.hi = np.zeros(self.nbin, dtype=int)       # required + free
        firm = (self.bin >= 0) & ~near
        np.add.at(self.lo, self.bin[firm], 1)
        self.hi += self.lo
        # a free pair may land in either bin adjacent to the edge it is near (or be dropped)
        fi, fj = np.nonzero(near)
        for a, c in zip(fi, fj):
            for kk, e in enumerate(self.edges):
                if abs(s[a, c] - e) <= LD(1e-9) * e:
                    if kk - 1 >= 0:
                        self.hi[kk - 1] += 1
                    if kk < self.nbin:
                        self.hi[kk] += 1


def check_bincount(case, ctx):
    import esutil
    t = BinTruth(case)
    h = esutil.htm.HTM(int(case["depth"]))
    kw = {}
    if t.scale_c is not None:
        kw["scale"] = t.scale_c
    if not case["getbins"]:
        kw["getbins"] = False
    if int(case["nbin"]) % 2 == 1:
        # the HTM object counted pairs against another second list before (the same positions in reverse order:
        # same length, same range of ids): nothing of that call may be reused for the one judged below
        r2 = np.asarray(t.ra2_c, dtype="f8")[::-1].copy()
        d2 = np.asarray(t.dec2_c, dtype="f8")[::-1].copy()
        sut(h.bincount, t.rmin, t.rmax, t.nbin, t.ra1_c, t.dec1_c, r2, d2, **kw)
    res = must(h.bincount, t.rmin, t.rmax, t.nbin, t.ra1_c, t.dec1_c, t.ra2_c, t.dec2_c, **kw)
    if case["getbins"]:
        require(isinstance(res, tuple) and len(res) == 3, "bincount(getbins=True) must return (lower,upper,counts)")
        lower, upper, counts = res
        for nm, e, ref in (("lower", lower, t.edges[:-1]), ("upper", upper, t.edges[1:])):
            require(isinstance(e, np.ndarray) and e.shape == (t.nbin,), "bincount %s edges have shape %r", nm,
                    getattr(e, "shape", None))
            ulp = np.spacing(np.asarray(ref, dtype="f8"))
            err = np.abs(e.astype(sphere.LD) - ref) / ulp
            j = int(np.argmax(err))
            require(float(err[j]) <= 4.0 + 2.0 * abs(math.log(t.rmax)) + 2.0 * abs(math.log(t.rmin)),
                    "bincount %s edge %d is %.17g, rmin*(rmax/rmin)**(i/nbin) = %.17g (%.1f ulp)", nm, j, e[j],
                    float(ref[j]), float(err[j]))
    else:
        counts = res
    require(isinstance(counts, np.ndarray) and counts.shape == (t.nbin,) and counts.dtype == np.dtype("i8"),
            "bincount counts: %r", (getattr(counts, "dtype", None), getattr(counts, "shape", None)))
    bad = np.nonzero((counts < t.lo) | (counts > t.hi))[0]
    if bad.size:
        j = int(bad[0])
        require(False, "bincount bin %d [%.12g, %.12g): counted %d pairs, brute force finds %d (+%d within 1e-9 of "
                "an edge); all bins: got %r expected %r", j, float(t.edges[j]), float(t.edges[j + 1]), counts[j],
                t.lo[j], t.hi[j] - t.lo[j], counts.tolist(), t.lo.tolist())
    # precomputed ids / reverse indices, produced as documented
    pre = case["pre"]
    if pre != "none":
        htmid2 = must(h.lookup_id, t.ra2_c, t.dec2_c)
        # the object is asked about other positions before the precomputed ids are used
        must(h.lookup_id, np.asarray(t.ra2_c, dtype="f8")[::-1].copy(), np.asarray(t.dec2_c, dtype="f8")[::-1].copy())
        minid, maxid = htmid2.min(), htmid2.max()
        kw2 = dict(kw)
        kw2["htmid2"] = htmid2.tolist() if pre == "all-lists" else htmid2
        if pre in ("ids+rev", "all", "all-lists"):
            hist2, rev2 = must(esutil.stat.histogram, htmid2 - minid, rev=True)
            kw2["htmrev2"] = rev2
        if pre in ("all", "all-lists"):
            kw2["minid"], kw2["maxid"] = (int(minid), int(maxid)) if pre == "all-lists" else (minid, maxid)
        res2 = must(h.bincount, t.rmin, t.rmax, t.nbin, t.ra1_c, t.dec1_c, t.ra2_c, t.dec2_c, **kw2)
        counts2 = res2[2] if case["getbins"] else res2
        require(np.array_equal(counts2, counts), "bincount with precomputed %s gives %r, without %r", pre,
                np.asarray(counts2).tolist(), counts.tolist())
        # ids are computed once and reused (that is what passing them is for): a second call with the very
        # same objects must give the same counts
        res3 = must(h.bincount, t.rmin, t.rmax, t.nbin, t.ra1_c, t.dec1_c, t.ra2_c, t.dec2_c, **kw2)
        counts3 = res3[2] if case["getbins"] else res3
        require(np.array_equal(counts3, counts), "second bincount call with the same precomputed %s objects gives %r, "
                "the first gave %r", pre, np.asarray(counts3).tolist(), counts.tolist())
    ctx.count("pairs-counted", int(counts.sum()))
    ctx.count("free-pairs", int(t.free.sum()))


def classify_bincount(case):
    t = BinTruth(case)
    sc = case["scale"]
    labs = ["depth:%s" % (case["depth"] if case["depth"] < 4 else "4-8" if case["depth"] <= 8 else "9-12"),
            "scale:" + ("none" if sc is None else "array" if isinstance(sc, list) else "scalar"),
            "pre:" + case["pre"], "nbin:%s" % (case["nbin"] if case["nbin"] < 4 else "5+"),
            "container:" + case["container"]]
    p1 = case["set1"]["pts"]
    if any(p1[i] == p1[i + 1] for i in range(len(p1) - 1)):
        labs.append("first-list-repeats-a-position" + ("-with-other-scale" if isinstance(sc, list) and len(set(sc)) > 1 else ""))
    nonempty = int((t.lo > 0).sum())
    labs.append("nonempty-bins:%s" % (nonempty if nonempty < 2 else "2+"))
    if nonempty >= 2:
        labs.append("nt:>=2-nonempty-bins")
    s = t.s
    below1 = np.asarray((s > 0) & (s < t.edges[0] * (1 - 1e-9)) & (s >= t.edges[0] ** 2 / t.edges[1]))
    if below1.any():
        labs.append("pair-within-one-bin-below-rmin")
    if np.asarray(s >= t.edges[-1] * (1 + 1e-9)).any():
        labs.append("pair-above-rmax")
    if t.free.any():
        labs.append("pair-on-edge")
    if case["confined"]:
        labs.append("confined")
    if t.n1 > 20 or t.n2 > 20:
        labs.append("bulk")
    return labs


SANITIZE = True        # thorough tier: reduced pass against an ASan build of the extensions
SANITIZE_SCALE = 0.03

SUBCHECKS = [
    Subcheck("ids", ids_cases, check_ids, classify_ids, quick=1200, thorough=60000),
    Subcheck("intersect", circle_cases, check_intersect, classify_intersect, quick=1500, thorough=20000),
    Subcheck("bincount", bincount_cases, check_bincount, classify_bincount, quick=1500, thorough=25000),
]
