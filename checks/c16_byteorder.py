"""C16 -- byte-order conversion preserves values and declares the requested order.

Oracle: everything expected is derived from the *case* (the drawn type codes and order
characters), never from esutil and not from ndarray.byteswap either: the expected dtype is
rebuilt from the field specs with the requested order, the expected bytes by an explicit
per-element byte reversal written here, values are compared bit-exactly after an
``astype`` to native order.
"""
import sys

import numpy as np
from hypothesis import strategies as st

from vp.api import Subcheck, must, require
from vp.gen import structarrays as sa

PROPERTY = "C16"
RULE = ("plain arrays: every numeric kind and size (i1..u8, f2 f4 f8 f16, c8 c16 c32, bool), S and U "
        "strings, dtype spelled with '<', '>', '=' or '|'; structured arrays: 1..6 packed fields whose "
        "multi-byte fields share one drawn order, with i1/u1/bool/S fields mixed in (often first), scalar "
        "and sub-array fields; shapes (), (n,) n=0..9, (n,m); layouts contiguous, every-other-element, "
        "reversed, transposed, column-strided and a 0-d view into a larger buffer; bodies are raw bit "
        "patterns (NaN payloads, -0.0, extremes).  Each case is one of to_native / to_big_endian / "
        "to_little_endian / byteswap x inplace x keep_dtype.  Non-trivial: a structured array mixing "
        "multi-byte with single-byte/string fields, or a non-native input with inplace=True, or a 0-d or "
        "strided input.  Distinct = distinct case JSON."
        " Inputs are plain ndarrays, recarrays or a trivial ndarray subclass.")
RULE += (" " + 'Also: structured dtypes with padding (numpy aligned layout; gap after the first field and unused tail bytes, padding holding 0xAB), compared field by field; plain arrays starting at an odd address; one array in forty with 2^16..2^18 (+1) elements.')
ASSUMPTIONS = [
    "structured arrays are packed, not nested, and all multi-byte fields share one byte order "
    "(the property's quantifier); per-field mixtures are not generated",
    "arrays are writeable and aligned enough for numpy (views into freshly allocated buffers)",
    "unicode (U) fields are treated as multi-byte fields: numpy gives them a byte order and swaps each "
    "4-byte code point; the statement does not name them explicitly",
    "on this little-endian machine numpy normalises '<' to '=', so the '<' spelling of a dtype is only "
    "observable as '='; the big-endian-machine branches of the predicates are not reachable",
]
TECHNIQUE = ("property-based testing (Hypothesis) against value/dtype/aliasing laws with an explicit "
             "byte-reversal reference and dtype reconstruction from the drawn field specs")
LEVEL_TEXT = ("exploration: generated arrays x 4 conversion functions x inplace x keep_dtype, plus the "
              "predicates, the descriptor strippers and the recfile.Util copies; no proof of absence")

FUNCS = ["to_native", "to_big_endian", "to_little_endian", "byteswap"]
TARGET = {"to_native": sa.NATIVE, "to_big_endian": ">", "to_little_endian": "<"}
OTHER = {"<": ">", ">": "<"}

PLAIN_BASES = sa.C16_NUM_BASES + sa.S_BASES + sa.U_BASES
STRUCT_BASES = sa.C16_NUM_BASES + sa.S_BASES + sa.U_BASES
SINGLEISH = ["i1", "u1", "b1"] + sa.S_BASES


# ------------------------------------------------------------------ reference helpers

def _swap_unit(base):
    """Number of bytes reversed together for one element of `base` (0: nothing to swap)."""
    if not sa.is_multibyte(base):
        return 0
    if base.startswith("U"):
        return 4
    size = np.dtype(base).itemsize
    return size // 2 if base.startswith("c") else size


def _resolve(spell):
    """Byte order a dtype spelling denotes on this machine."""
    return spell if spell in "<>" else sa.NATIVE


def swapped_bytes(a, layout_fields):
    """Bytes of C-contiguous copy of `a` with every multi-byte element reversed.

    layout_fields: list of (offset, nbytes, unit) per field (plain array: one entry)."""
    c = np.ascontiguousarray(a)
    item = c.dtype.itemsize
    raw = np.frombuffer(c.tobytes(), dtype="u1").copy()
    if raw.size == 0:
        return raw.tobytes()
    raw = raw.reshape(-1, item)
    for off, nbytes, unit in layout_fields:
        if unit:
            seg = raw[:, off:off + nbytes].reshape(raw.shape[0], nbytes // unit, unit)
            raw[:, off:off + nbytes] = seg[:, :, ::-1].reshape(raw.shape[0], nbytes)
    return raw.tobytes()


def _field_layout(fields):
    out, off = [], 0
    for name, base, order, shape in fields:
        size = np.dtype(sa.typestr(base, "<")).itemsize * (int(np.prod(shape)) if len(shape) else 1)
        out.append((off, size, _swap_unit(base)))
        off += size
    return out


# ------------------------------------------------------------------ layouts (views into a base)

LAYOUTS = {0: ["contig", "elem"], 1: ["contig", "contig", "step2", "rev"],
           2: ["contig", "contig", "step2", "rev", "T", "col"]}


def base_shape(shape, layout):
    shape = list(shape)
    if layout in ("contig", "rev", "unaligned"):
        return shape
    if layout == "elem":
        return [3]
    if layout == "step2":
        return [2 * shape[0] + 1] + shape[1:]
    if layout == "T":
        return [shape[1], shape[0]]
    if layout == "col":
        return [shape[0], 2 * shape[1] + 1]
    raise ValueError(layout)


def take_view(base, shape, layout):
    if layout == "contig":
        return base
    if layout == "rev":
        return base[::-1]
    if layout == "elem":
        return base[1:2].reshape(())
    if layout == "step2":
        return base[1:1 + 2 * shape[0]:2]
    if layout == "T":
        return base.T
    if layout == "col":
        return base[:, 0:2 * shape[1]:2]
    raise ValueError(layout)


@st.composite
def _shape_layout(draw):
    shape = draw(sa.array_shapes)
    layout = draw(st.sampled_from(LAYOUTS[len(shape)]))
    return shape, layout


# ------------------------------------------------------------------ conversion sub-checks

@st.composite
def plain_cases(draw):
    base = draw(st.sampled_from(PLAIN_BASES))
    spell = draw(st.sampled_from(["<", ">", ">", "=", "|"]))
    shape, layout = draw(_shape_layout())
    if layout == "contig" and draw(st.integers(0, 5)) == 0:
        layout = "unaligned"      # contiguous data starting at an odd address (a field of a packed record, a buffer slice)
    return {"base": base, "spell": spell, "shape": shape, "layout": layout, "seed": draw(sa.seeds),
            "func": draw(st.sampled_from(FUNCS)), "inplace": draw(st.booleans()),
            "keep_dtype": draw(st.booleans()),
            "cls": draw(st.sampled_from(["ndarray", "ndarray", "ndarray", "recarray", "subclass"]))}


@st.composite
def struct_cases(draw):
    style = draw(st.sampled_from(["any", "any", "single-first", "single-only", "multi-only"]))
    if style == "single-only":
        fields = draw(sa.field_specs(1, 4, bases=SINGLEISH, order="uniform"))
    elif style == "multi-only":
        fields = draw(sa.field_specs(1, 5, bases=[b for b in STRUCT_BASES if sa.is_multibyte(b)],
                                     order="uniform"))
    else:
        fields = draw(sa.field_specs(1, 6, bases=STRUCT_BASES, order="uniform"))
        if style == "single-first" and len(fields) > 1:
            # the first field(s) carry no byte order, a later one decides
            fields[0][1] = draw(st.sampled_from(SINGLEISH))
            fields[0][2] = "|"
            if not sa.has_multi(fields):
                fields[-1][1] = draw(st.sampled_from(["i2", "u4", "f4", "f8", "c8", "i8", "U2"]))
                fields[-1][2] = draw(st.sampled_from(["<", ">"]))
    shape, layout = draw(_shape_layout())
    return {"fields": fields, "shape": shape, "layout": layout, "seed": draw(sa.seeds),
            "pad": draw(st.sampled_from([None, None, None, None, "aligned", "gap"])),
            "func": draw(st.sampled_from(FUNCS)), "inplace": draw(st.booleans()),
            "keep_dtype": draw(st.booleans()),
            "cls": draw(st.sampled_from(["ndarray", "ndarray", "ndarray", "recarray", "subclass"]))}


def _table_order(fields):
    for f in fields:
        if sa.is_multibyte(f[1]):
            return f[2]
    return None


def _with_order(fields, order):
    return [[n, b, (order if sa.is_multibyte(b) else "|"), s] for n, b, o, s in fields]


def _build(case):
    """-> (base, view, mask_of_view_in_base, fields-or-None, current order or None)."""
    shape, layout = case["shape"], case["layout"]
    bshape = base_shape(shape, layout)
    if "fields" in case:
        fields = case["fields"]
        base = sa.make_array(fields, bshape, case["seed"])
        cur = _table_order(fields)
        if case.get("pad"):
            base = _padded(base, case["pad"])
    else:
        fields = None
        if layout == "unaligned":
            vals = sa.make_plain(case["base"], case["spell"], shape, case["seed"])
            buf = np.zeros(vals.nbytes + 1, dtype="u1")
            buf[1:] = np.frombuffer(vals.tobytes(), dtype="u1")
            base = buf[1:].view(vals.dtype).reshape(vals.shape)
            cur = _resolve(case["spell"]) if sa.is_multibyte(case["base"]) else None
            return base, base, np.ones(tuple(shape), dtype=bool), None, cur
        base = sa.make_plain(case["base"], case["spell"], bshape, case["seed"])
        cur = _resolve(case["spell"]) if sa.is_multibyte(case["base"]) else None
    view = take_view(base, shape, layout)
    mask = np.zeros(tuple(bshape), dtype=bool)
    mv = take_view(mask, shape, layout)
    mv[...] = True
    return base, view, mask, fields, cur


def _padded(a, how):
    """The records of packed array `a` in a dtype with padding: numpy's aligned layout, or the layout of a
    multi-field view (a gap after the first field and unused bytes at the end).  Padding bytes hold 0xAB."""
    dt = a.dtype
    if how == "aligned":
        pdt = np.dtype(dt.descr, align=True)
    else:
        offs, off = [], 0
        for i, n in enumerate(dt.names):
            offs.append(off)
            off += dt[n].itemsize + (3 if i == 0 else 0)
        pdt = np.dtype({"names": list(dt.names), "formats": [dt[n] for n in dt.names], "offsets": offs,
                        "itemsize": off + 5})
    out = np.frombuffer(bytearray(b"\xab" * (pdt.itemsize * max(1, a.size))), dtype=pdt)[:a.size if a.ndim else 1]
    out = out.reshape(a.shape)
    for n in dt.names:
        out[n] = a[n]
    return out


def _has_padding(dt):
    return dt.names is not None and dt.itemsize != sum(dt[n].itemsize for n in dt.names)


def _packed(a):
    """`a` with padding removed (same field types and byte orders): what the byte-level comparisons look at."""
    a = np.asarray(a)
    if not _has_padding(a.dtype):
        return a
    out = np.zeros(a.shape, dtype=[(n, a.dtype[n]) for n in a.dtype.names])
    for n in a.dtype.names:
        out[n] = a[n]
    return out


def _expected_dtype(case, fields, order, like=None):
    if fields is not None:
        packed = sa.make_dtype(_with_order(fields, order))
        if like is not None and _has_padding(like):
            # same offsets and itemsize as the input, every field in the requested order
            return np.dtype({"names": list(like.names), "formats": [packed[n] for n in like.names],
                             "offsets": [like.fields[n][1] for n in like.names], "itemsize": like.itemsize,
                             "aligned": like.isalignedstruct})
        return packed
    return np.dtype(sa.typestr(case["base"], order))


def _declared_orders(dt):
    """Set of resolved byte orders declared by the multi-byte (sub)fields of dt."""
    out = set()
    if dt.names is None:
        bo = dt.base.byteorder
        if bo != "|":
            out.add(_resolve(bo))
        return out
    for n in dt.names:
        out |= _declared_orders(dt[n])
    return out


def _raw_items(base):
    """uint8 copy of a C-contiguous base array, one row per element."""
    return np.frombuffer(base.tobytes(), dtype="u1").reshape(base.shape + (base.dtype.itemsize,)).copy()


class _Sub(np.ndarray):
    """A trivial ndarray subclass (stands for memmap, recarray, user subclasses)."""


def check_convert(case, ctx):
    import esutil.numpy_util as nu
    func, inplace, keep = case["func"], case["inplace"], case["keep_dtype"]
    f = getattr(nu, func)
    base, arr, mask, fields, cur = _build(case)
    cls = case.get("cls", "ndarray")
    if cls == "recarray" and fields is not None:
        arr = arr.view(np.recarray)           # array subclasses are arrays: same contract
    elif cls == "subclass":
        arr = arr.view(_Sub)
    layout = _field_layout(fields) if fields is not None else [
        (0, np.dtype(sa.typestr(case["base"], "<")).itemsize, _swap_unit(case["base"]))]

    in_dtype = np.dtype(arr.dtype)          # dtype objects are immutable; keep the original
    in_bytes = np.ascontiguousarray(_packed(arr)).tobytes()
    in_native = sa.native_bytes(_packed(arr))
    in_shape = arr.shape
    base_raw = _raw_items(base)

    if cur is None:                          # nothing in the array has a byte order
        target, need = None, False
    elif func == "byteswap":
        target, need = OTHER[cur], True
    else:
        target = TARGET[func]
        need = cur != target
    exp_bytes = swapped_bytes(_packed(arr), layout) if need else in_bytes
    exp_dtype = in_dtype if (keep or cur is None) else _expected_dtype(case, fields, target, like=in_dtype)

    res = must(f, arr, inplace=inplace, keep_dtype=keep)

    require(isinstance(res, np.ndarray), "%s returned %r, not an array", func, type(res))
    require(res.shape == in_shape, "%s changed the shape %r -> %r", func, in_shape, res.shape)
    require(res.dtype.names == in_dtype.names, "%s changed the field names %r -> %r", func,
            in_dtype.names, res.dtype.names)
    require(res.dtype == exp_dtype, "%s(inplace=%s, keep_dtype=%s) on %s gave dtype %s, expected %s",
            func, inplace, keep, in_dtype, res.dtype, exp_dtype)
    if not keep and target is not None:
        require(_declared_orders(res.dtype) == {target},
                "%s: declared byte order of the result is %r, requested %r (dtype %s)", func,
                sorted(_declared_orders(res.dtype)), target, res.dtype)
        require(sa.native_bytes(_packed(res)) == in_native,
                "%s(inplace=%s) changed element values: input dtype %s, result dtype %s", func, inplace,
                in_dtype, res.dtype)
    got = np.ascontiguousarray(_packed(res)).tobytes()
    require(got == exp_bytes,
            "%s(inplace=%s, keep_dtype=%s) on %s: result bytes are %s, expected the %s bytes", func,
            inplace, keep, in_dtype, "wrong", "swapped" if need else "unchanged")

    base_after = _raw_items(base)
    if inplace:
        require(res is arr, "%s(inplace=True) did not return the caller's array object", func)
        require(np.array_equal(base_after[~mask], base_raw[~mask]),
                "%s(inplace=True) on a view modified elements of the buffer outside the view", func)
        if need:
            ctx.count("inplace-swapped")
    else:
        require(res is not arr, "%s(inplace=False) returned the input object", func)
        require(not np.shares_memory(res, base),
                "%s(inplace=False) result shares memory with the input (swap needed: %s)", func, need)
        require(np.array_equal(base_after, base_raw) and arr.dtype == in_dtype,
                "%s(inplace=False) modified its input", func)
        if not need:
            ctx.count("copy-without-swap")

    # idempotence / involution, always on copies
    if func == "byteswap":
        back = must(f, res, inplace=False, keep_dtype=keep)
        require(back.dtype == in_dtype and np.ascontiguousarray(_packed(back)).tobytes() == in_bytes,
                "byteswap twice does not restore the original (dtype %s -> %s -> %s)", in_dtype,
                res.dtype, back.dtype)
    elif not keep:
        again = must(f, res, inplace=False, keep_dtype=False)
        require(again.dtype == res.dtype and np.ascontiguousarray(_packed(again)).tobytes() == got,
                "%s is not idempotent: dtype %s -> %s -> %s", func, in_dtype, res.dtype, again.dtype)
        require(not np.shares_memory(again, res), "%s(inplace=False) on converted data is not a copy", func)


def classify_convert(case):
    labs = ["class:" + case.get("cls", "ndarray"), "func:" + case["func"], "inplace:%s" % case["inplace"],
            "keep:%s" % case["keep_dtype"],
            "layout:" + case["layout"], "ndim:%d" % len(case["shape"])]
    if "fields" in case:
        fields = case["fields"]
        cur = _table_order(fields)
        mixed = sa.has_multi(fields) and sa.has_single(fields)
        if mixed:
            labs.append("nt:mixed-single-and-multi")
            if not sa.is_multibyte(fields[0][1]):
                labs.append("first-field-single")
        if not sa.has_multi(fields):
            labs.append("no-multibyte-field")
        if sa.has_subarray(fields):
            labs.append("subarray-field")
        if case.get("pad"):
            labs.append("dtype-with-padding:" + case["pad"])
    else:
        labs.append("base:" + case["base"])
        labs.append("spell:" + case["spell"])
        cur = _resolve(case["spell"]) if sa.is_multibyte(case["base"]) else None
    labs.append("order:%s" % ("none" if cur is None else "native" if cur == sa.NATIVE else "swapped"))
    if cur is not None:
        need = True if case["func"] == "byteswap" else cur != TARGET[case["func"]]
        labs.append("swap-needed:%s" % need)
        if cur == ">" and case["func"] == "to_big_endian" or cur == "<" and case["func"] == "to_little_endian":
            labs.append("already-in-requested-order")
    if cur is not None and cur != sa.NATIVE and case["inplace"]:
        labs.append("nt:nonnative-inplace")
    if len(case["shape"]) == 0 or case["layout"] != "contig":
        labs.append("nt:0d-or-strided")
    if 0 in case["shape"]:
        labs.append("empty")
    return labs


# ------------------------------------------------------------------ predicates

@st.composite
def predicate_cases(draw):
    if draw(st.booleans()):
        return {"base": draw(st.sampled_from(PLAIN_BASES)), "spell": draw(st.sampled_from(["<", ">", "=", "|"])),
                "shape": draw(sa.array_shapes), "seed": draw(sa.seeds)}
    return {"fields": draw(sa.field_specs(1, 5, bases=STRUCT_BASES, order="mixed")),
            "shape": draw(sa.array_shapes), "seed": draw(sa.seeds)}


def _expect_pred(base, spell):
    if not sa.is_multibyte(base):
        return False, False                 # documented: strings (and single bytes) are neither
    o = _resolve(spell)
    return o == ">", o == "<"


def check_predicates(case, ctx):
    import esutil.numpy_util as nu
    import esutil.recfile.Util as ru
    probes = []
    if "fields" in case:
        arr = sa.make_array(case["fields"], case["shape"], case["seed"])
        for name, base, order, shape in case["fields"]:
            probes.append((arr[name], arr.dtype[name], base, order, "field %r" % name))
    else:
        arr = sa.make_plain(case["base"], case["spell"], case["shape"], case["seed"])
        probes.append((arr, arr.dtype, case["base"], case["spell"], "plain"))
    for a, dt, base, spell, what in probes:
        big, little = _expect_pred(base, spell)
        rb = must(nu.is_big_endian, a)
        rl = must(nu.is_little_endian, a)
        require(bool(rb) == big and bool(rl) == little,
                "%s %s%s: is_big_endian=%r is_little_endian=%r, expected %r/%r", what, spell, base, rb, rl,
                big, little)
        require(isinstance(rb, (bool, np.bool_)) and isinstance(rl, (bool, np.bool_)),
                "predicates must return truth values, got %r %r", rb, rl)
        for d in (dt, a.dtype):             # field dtype incl. sub-array shape, and its base
            r = must(ru.is_little_endian, d)
            require(bool(r) == little, "recfile.Util.is_little_endian(%s) = %r, expected %r", d, r, little)


def classify_predicates(case):
    if "fields" in case:
        labs = ["struct"]
        if sa.has_subarray(case["fields"]):
            labs.append("subarray-field")
        if sa.has_multi(case["fields"]) and sa.has_single(case["fields"]):
            labs.append("nt:mixed-single-and-multi")
        return labs
    labs = ["plain", "spell:" + case["spell"], "base:" + case["base"]]
    if len(case["shape"]) == 0:
        labs.append("nt:0d-or-strided")
    return labs


# ------------------------------------------------------------------ descriptor stripping

@st.composite
def descr_cases(draw):
    return {"fields": draw(sa.field_specs(1, 6, bases=STRUCT_BASES,
                                          order=draw(st.sampled_from(["uniform", "mixed"]))))}


def check_descr(case, ctx):
    import copy
    import esutil.numpy_util as nu
    import esutil.recfile.Util as ru
    fields = case["fields"]
    dt = sa.make_dtype(fields)
    want = sa.make_dtype(_with_order(fields, sa.NATIVE))
    descr = dt.descr
    keep = copy.deepcopy(descr)
    for what, out in (("numpy_util.descr_to_native", must(nu.descr_to_native, descr)),
                      ("recfile.Util.remove_dtype_byteorder", must(ru.remove_dtype_byteorder, dt))):
        require(isinstance(out, list) and len(out) == len(fields), "%s returned %r", what, out)
        for ent, spec in zip(out, fields):
            require(isinstance(ent, tuple) and len(ent) == (3 if len(spec[3]) else 2),
                    "%s: entry %r does not match field spec %r", what, ent, spec)
            require(ent[0] == spec[0], "%s: name %r -> %r", what, spec[0], ent[0])
            # "no byte order information": '<'/'>' must be gone; a leading '|' or '=' says nothing
            require(isinstance(ent[1], str) and ent[1][:1] not in "<>" and ent[1].lstrip("|=") == spec[1],
                    "%s: type string %r, expected %r without byte order", what, ent[1], spec[1])
            if len(spec[3]):
                require(tuple(ent[2]) == tuple(spec[3]), "%s: sub-array shape %r -> %r", what, spec[3], ent[2])
        got = np.dtype(out)
        require(got == want, "%s: np.dtype(result) = %s, expected native %s", what, got, want)
        require(_declared_orders(got) <= {sa.NATIVE}, "%s: result is not native: %s", what, got)
    require(descr == keep, "descr_to_native modified the descriptor passed in")


def classify_descr(case):
    f = case["fields"]
    labs = []
    if sa.has_multi(f) and sa.has_single(f):
        labs.append("nt:mixed-single-and-multi")
    if sa.has_subarray(f):
        labs.append("subarray-field")
    if sa.has_nonnative(f):
        labs.append("nonnative")
    return labs


# ------------------------------------------------------------------ recfile.Util.to_native_inplace

@st.composite
def rf_native_cases(draw):
    if draw(st.integers(0, 3)) == 0:
        base = draw(st.sampled_from(PLAIN_BASES))
        case = {"base": base, "spell": draw(st.sampled_from(["<", ">", ">", "=", "|"]))}
    else:
        sc = draw(struct_cases())
        case = {"fields": sc["fields"], "pad": sc["pad"]}
    shape, layout = draw(_shape_layout())
    if "base" in case and layout == "contig" and draw(st.integers(0, 5)) == 0:
        layout = "unaligned"
    case.update(shape=shape, layout=layout, seed=draw(sa.seeds))
    return case


def check_rf_native(case, ctx):
    import esutil.recfile.Util as ru
    base, arr, mask, fields, cur = _build(case)
    layout = _field_layout(fields) if fields is not None else [
        (0, np.dtype(sa.typestr(case["base"], "<")).itemsize, _swap_unit(case["base"]))]
    in_dtype = np.dtype(arr.dtype)
    in_bytes = np.ascontiguousarray(_packed(arr)).tobytes()
    in_native = sa.native_bytes(_packed(arr))
    base_raw = _raw_items(base)
    need = cur is not None and cur != sa.NATIVE
    exp_bytes = swapped_bytes(_packed(arr), layout) if need else in_bytes
    exp_dtype = in_dtype if cur is None else _expected_dtype(case, fields, sa.NATIVE, like=in_dtype)
    must(ru.to_native_inplace, arr)
    require(arr.dtype == exp_dtype and arr.dtype.names == in_dtype.names,
            "to_native_inplace on %s left dtype %s, expected %s", in_dtype, arr.dtype, exp_dtype)
    require(np.ascontiguousarray(_packed(arr)).tobytes() == exp_bytes,
            "to_native_inplace on %s: bytes are not the %s bytes", in_dtype, "swapped" if need else "original")
    require(sa.native_bytes(_packed(arr)) == in_native, "to_native_inplace on %s changed element values", in_dtype)
    require(np.array_equal(_raw_items(base)[~mask], base_raw[~mask]),
            "to_native_inplace on a view modified elements outside the view")


def classify_rf_native(case):
    c = dict(case)
    c.update(func="to_native", inplace=True, keep_dtype=False)
    return [lab for lab in classify_convert(c) if not lab.startswith(("func:", "inplace:", "keep:"))]


# ------------------------------------------------------------------ self-test of the reference

def selftest():
    """The explicit byte reversal must agree with numpy's astype-to-other-order on a fixed table, and
    make_array/native_bytes must be bit-exact."""
    fields = [["s", "S3", "|", []], ["a", "i4", ">", [2]], ["c", "c8", ">", []], ["u", "U2", ">", []],
              ["b", "u1", "|", []], ["l", "f16", ">", []]]
    a = sa.make_array(fields, [4], 12345)
    ref = a.astype(a.dtype.newbyteorder("<")).tobytes()
    if swapped_bytes(a, _field_layout(fields)) != ref:
        raise AssertionError("byte-reversal reference disagrees with numpy astype")
    b = sa.make_array(_with_order(fields, "<"), [4], 12345)
    if sa.native_bytes(a) != sa.native_bytes(b) or b.tobytes() != ref:
        raise AssertionError("make_array is not bit-exact across byte orders")
    if sys.byteorder != "little":
        raise AssertionError("expectations for '=' were written for a little-endian machine")


SUBCHECKS = [
    Subcheck("plain", plain_cases, check_convert, classify_convert, quick=9000, thorough=120000,
             journal=False),
    Subcheck("struct", struct_cases, check_convert, classify_convert, quick=12000, thorough=180000,
             journal=False),
    Subcheck("predicates", predicate_cases, check_predicates, classify_predicates, quick=3000,
             thorough=30000, journal=False),
    Subcheck("descr", descr_cases, check_descr, classify_descr, quick=3000, thorough=30000,
             journal=False),
    Subcheck("recfile_native", rf_native_cases, check_rf_native, classify_rf_native, quick=4500,
             thorough=40000, journal=False),
]
