"""C06 -- numpy_util.match is sound and complete; unique/rem_dup keep one index per value.

Oracle: a dict model written here (value -> position in the first array); nothing of
esutil is used to compute expectations.
"""
import numpy as np
from hypothesis import strategies as st

from vp.api import Raised, Subcheck, Violation, must, require, sut

PROPERTY = "C06"
RULE = ("match: first array = distinct values of one dtype (i1..u8 incl. type limits, f4/f8 finite "
        "incl. negatives and -0.0, S/U strings of mixed length) in drawn order, second array = drawn "
        "mixture of members of the first (with repeats), values below/above its range and in its gaps; "
        "sizes 1..60, scalars, lists, presorted=True on sorted input, repeated first array (must raise); "
        "match_wide: first and second array of different integer dtypes with second-array values that alias onto "
        "members of the first when cast to its type, and second arrays of 1e3..1e5 elements (PCG64-expanded from "
        "a drawn seed). "
        "unique/rem_dup: tie-heavy arrays whose first element is often not the minimum, flags with ties. "
        "Non-trivial: match with some-but-not-all of a2 matching and (a repeat in a2 or a probe outside "
        "a1's range); de-duplication with >=2 distinct values and >=1 tie. Distinct = distinct case JSON.")
RULE += (" " + 'Also: presorted= spelt as bool / int / numpy.bool_; match_wide kind large-first (first array of 10^2..2*10^4 distinct values, second array of 3..13 elements with repeats); the index arrays returned by match / unique / rem_dup are compared with their copies after a further call.')
ASSUMPTIONS = [
    "floats are finite (NaN never equals itself, the statement speaks of equal elements)",
    "strings contain no NUL; blanks (also trailing ones) are ordinary characters, as they are for numpy's == on "
    "fixed-width string arrays; a byte string does not end in NUL (numpy strips those)",
    "both arrays of a match call share one dtype kind; sub-check match_wide mixes integer dtypes whose numpy "
    "common type is an integer (u8 against a signed type promotes to float64 and is not generated)",
]

TECHNIQUE = ("property-based testing (Hypothesis) against a dict model of matching (exact Python-int/float/str "
             "equality): soundness, completeness, order by position in the second array; mixed integer dtypes, "
             "10^3-10^5-element second arrays, memory layouts, repeated calls; one-index-per-value and "
             "largest-flag model for unique/rem_dup")
LEVEL_TEXT = ("Generated-input search against an independent dict model; shows the property on every generated pair "
              "of arrays and every de-duplication input, never the absence of violations.")

INT_TYPES = ["i1", "u1", "i2", "u2", "i4", "u4", "i8", "u8"]
FLT_TYPES = ["f4", "f8"]
STR_TYPES = ["S", "U"]
ALPHABET = "abcXYZ019_ "        # a blank too: "ngc 10 " and "ngc 10" are different values


def _elements(dt):
    if dt in INT_TYPES:
        info = np.iinfo(dt)
        lo, hi = int(info.min), int(info.max)
        return st.one_of(
            st.integers(lo, hi),
            st.integers(max(lo, -8), min(hi, 8)),
            st.integers(0, 6).map(lambda k: hi - k),
            st.integers(0, 6).map(lambda k: lo + k),
        )
    if dt == "f8":
        return st.one_of(st.floats(allow_nan=False, allow_infinity=False, width=64),
                         st.integers(-5, 5).map(float),
                         st.sampled_from([0.0, -0.0, 0.1, -0.1, 1e300, -1e300, 5e-324]))
    if dt == "f4":
        return st.one_of(st.floats(allow_nan=False, allow_infinity=False, width=32),
                         st.integers(-5, 5).map(float),
                         st.sampled_from([0.0, -0.0, 0.5, -0.5]))
    return st.text(alphabet=ALPHABET, min_size=0 if dt == "U" else 1, max_size=6)


def _np(dt, vals):
    if dt == "S":
        return np.array([v.encode("ascii") for v in vals])
    if dt == "U":
        return np.array(vals) if len(vals) else np.array([], dtype="U1")
    return np.array(vals, dtype=dt)


def _key(dt, v):
    """Model key under which two elements are 'equal'."""
    if dt in FLT_TYPES:
        return float(np.dtype(dt).type(v)) + 0.0  # -0.0 == 0.0; f4 rounding applied
    return v


@st.composite
def match_cases(draw):
    dt = draw(st.sampled_from(INT_TYPES + FLT_TYPES + STR_TYPES))
    el = _elements(dt)
    a1 = draw(st.lists(el, min_size=1, max_size=draw(st.sampled_from([1, 3, 8, 30, 60])),
                       unique_by=lambda v: _key(dt, v)))
    n2 = draw(st.sampled_from([1, 2, 5, 20, 60]))
    a2 = draw(st.lists(st.one_of(st.sampled_from(a1), st.sampled_from(a1), el), min_size=1, max_size=n2))
    mode = draw(st.sampled_from(["plain", "plain", "presorted", "multi", "list", "scalar1", "scalar2",
                                 "repeat1"]))
    if mode == "list" and dt not in ("i8", "f8", "S", "U"):
        mode = "plain"      # a Python list does not carry the dtype; only natively inferred ones
    case = {"dtype": dt, "a1": a1, "a2": a2, "mode": mode,
            "flagas": draw(st.sampled_from(["bool", "bool", "int", "npbool"])),
            "layout": draw(st.sampled_from(["plain", "plain", "plain", "swapped", "swapped-view", "strided", "field"]))}
    if mode == "repeat1":
        case["dup_at"] = draw(st.integers(0, len(a1) - 1))
    return case


def check_match(case, ctx):
    import esutil.numpy_util as nu
    dt, mode = case["dtype"], case["mode"]
    v1, v2 = list(case["a1"]), list(case["a2"])
    if mode == "scalar1":
        v1 = v1[:1]
    if mode == "scalar2":
        v2 = v2[:1]
    if mode == "presorted":
        v1 = [v1[i] for i in np.argsort(_np(dt, v1), kind="stable")]
    if mode == "repeat1":
        v1 = v1 + [v1[case["dup_at"]]]
    a1, a2 = _np(dt, v1), _np(dt, v2)
    if mode == "repeat1":
        r = sut(nu.match, a1, a2)
        require(isinstance(r, Raised) and isinstance(r.exc, ValueError),
                "match with a repeated value in the first array must raise ValueError, got %r", r)
        # declaring the (sorted) array presorted does not make the repeat acceptable
        a1s = np.sort(a1)
        r = sut(nu.match, a1s, a2, presorted=True)
        require(isinstance(r, Raised) and isinstance(r.exc, ValueError),
                "match(presorted=True) with a repeated value in the sorted first array must raise ValueError, got %r", r)
        return
    arg1, arg2 = a1, a2
    lay = case.get("layout", "plain")
    if lay != "plain" and mode in ("plain", "presorted", "multi") and a1.dtype.kind in "iuf":
        re1, re2 = _relayout(a1, lay), _relayout(a2, lay)
        arg1, arg2 = re1(), re2()
    if mode == "list":
        arg1, arg2 = a1.tolist(), a2.tolist()
    # a scalar as callers have it: a numpy scalar, or (every third case) the 0-d array a reduction or an index hands back
    if mode == "scalar1":
        arg1 = np.array(a1[0]) if len(case["a2"]) % 3 == 0 else a1[0]
    if mode == "scalar2":
        arg2 = np.array(a2[0]) if len(case["a1"]) % 3 == 0 else a2[0]
    # the presorted flag as callers spell it: a bool, an int, or the numpy bool a comparison produces
    fl = {"bool": bool, "int": int, "npbool": np.bool_}[case.get("flagas", "bool")]
    if mode == "presorted":
        r = must(nu.match, arg1, arg2, presorted=fl(True))
    elif mode == "multi":
        r = must(nu.match_multi, arg1, arg2)
    elif case.get("flagas", "bool") != "bool":
        r = must(nu.match, arg1, arg2, presorted=fl(False))
    else:
        r = must(nu.match, arg1, arg2)
    require(isinstance(r, tuple) and len(r) == 2, "match must return two index arrays, got %r", r)
    i1, i2 = np.asarray(r[0]), np.asarray(r[1])
    kept = (r[0], r[1], np.array(r[0], copy=True), np.array(r[1], copy=True))
    # model
    pos1 = {}
    for i, v in enumerate(a1.tolist()):
        pos1[_key(dt, v) if dt in FLT_TYPES else v] = i
    exp = []
    for j, v in enumerate(a2.tolist()):
        k = _key(dt, v) if dt in FLT_TYPES else v
        if k in pos1:
            exp.append((pos1[k], j))
    require(i1.ndim == 1 and i2.ndim == 1 and i1.size == i2.size,
            "index arrays differ in length: %r %r", i1, i2)
    require(i1.dtype.kind in "iu" and i2.dtype.kind in "iu", "index arrays are not integer")
    got = list(zip(i1.tolist(), i2.tolist()))
    for a, b in got:
        require(0 <= a < a1.size and 0 <= b < a2.size, "index out of range: (%r,%r)", a, b)
        require(a1[a] == a2[b], "matched elements differ: arr1[%d]=%r arr2[%d]=%r", a, a1[a], b, a2[b])
    require(all(x < y for x, y in zip(i2.tolist(), i2.tolist()[1:])),
            "second index array not strictly increasing: %r", i2.tolist())
    require(got == exp, "pairs differ from the model: got %r expected %r", got, exp)
    if mode in ("plain", "presorted") and a2.size >= 2:
        # the index arrays handed out stay what they were when the caller matches something else afterwards
        sut(nu.match, a1, a2[: a2.size // 2])
        require(np.array_equal(np.asarray(kept[0]), kept[2]) and np.array_equal(np.asarray(kept[1]), kept[3]),
                "the index arrays returned by match() changed when match() was called again: now %r / %r, were %r / %r",
                np.asarray(kept[0]).tolist()[:8], np.asarray(kept[1]).tolist()[:8], kept[2].tolist()[:8],
                kept[3].tolist()[:8])
    if lay == "plain" and mode == "plain" and isinstance(arg1, np.ndarray) and a1.size >= 2:
        # the caller re-orders his first array in place and matches again with the same object: the pairs must
        # follow the new contents
        arg1[...] = arg1[::-1].copy()
        r3 = must(nu.match, arg1, arg2)
        pos3 = {}
        for i, v in enumerate(arg1.tolist()):
            pos3[_key(dt, v) if dt in FLT_TYPES else v] = i
        exp3 = [(pos3[k], j) for j, k in enumerate((_key(dt, v) if dt in FLT_TYPES else v) for v in a2.tolist())
                if k in pos3]
        got3 = list(zip(np.asarray(r3[0]).tolist(), np.asarray(r3[1]).tolist()))
        require(got3 == exp3, "match() after the first array was reversed in place (same object): got %r, the model "
                "gives %r", got3[:8], exp3[:8])
    if lay != "plain" and mode in ("plain", "presorted", "multi") and a1.dtype.kind in "iuf":
        # the same array objects matched a second time give the same pairs (nothing was done to them)
        fn = nu.match_multi if mode == "multi" else nu.match
        arg1, arg2 = re1(), re2()        # the caller looks at his data again (a new view of the same buffers)
        r2 = must(fn, arg1, arg2, presorted=True) if mode == "presorted" else must(fn, arg1, arg2)
        got2 = list(zip(np.asarray(r2[0]).tolist(), np.asarray(r2[1]).tolist()))
        require(got2 == exp, "a second match() call on the same %s arrays gives %r, the first gave %r", lay, got2, exp)


def _relayout(a, lay):
    """Same values in another memory representation (byte-swapped, a strided view, a field of a record
    array).  Returns a function that hands out a view of the one underlying buffer each time it is called."""
    if lay == "swapped":
        base = a.astype(a.dtype.newbyteorder("S"))
        return lambda: base[:]
    if lay == "swapped-view":
        base = np.zeros(2 * a.size + 1, dtype=a.dtype.newbyteorder("S"))
        base[1::2] = a
        return lambda: base[1::2]
    if lay == "strided":
        base = np.zeros(2 * a.size + 1, dtype=a.dtype)
        base[1::2] = a
        return lambda: base[1::2]
    if lay == "field":
        rec = np.zeros(a.size, dtype=[("pad", "u1"), ("v", a.dtype.newbyteorder("S")), ("tail", "i2")])
        rec["v"] = a
        return lambda: rec["v"]
    return lambda: a


def classify_match(case):
    labs = ["dtype:" + case["dtype"], "mode:" + case["mode"], "layout:" + case.get("layout", "plain")]
    if case["mode"] in ("plain", "presorted", "list", "scalar1", "scalar2"):
        labs.append("presorted-flag-as:" + case.get("flagas", "bool"))
    if case["mode"] in ("repeat1",):
        labs.append("nt:rejects-repeat")
        return labs
    dt = case["dtype"]
    k1 = set(_key(dt, v) for v in case["a1"])
    a2 = case["a2"][:1] if case["mode"] == "scalar2" else case["a2"]
    if case["mode"] == "scalar1":
        k1 = set([_key(dt, case["a1"][0])])
    k2 = [_key(dt, v) for v in a2]
    nm = sum(1 for k in k2 if k in k1)
    some = 0 < nm < len(k2)
    rep = len(set(k2)) < len(k2)
    lo, hi = min(k1), max(k1)
    outside = any(k < lo or k > hi for k in k2)
    labs.append("match:" + ("none" if nm == 0 else "all" if nm == len(k2) else "some"))
    if outside:
        labs.append("probe-outside-range")
    if any(k > hi for k in k2):
        labs.append("probe-above-max")
    if some and (rep or outside):
        labs.append("nt:partial-match")
    return labs


@st.composite
def dedup_cases(draw, with_flag):
    if draw(st.integers(0, 19)) == 0:
        # large inputs (expanded from a seed): few distinct values, many duplicates, flags that differ
        return {"dtype": draw(st.sampled_from(["i8", "i4", "f8"])), "values": draw(st.booleans()),
                "big": {"n": draw(st.sampled_from([1001, 4097, 10001, 20011, 65537])),
                        "seed": draw(st.integers(0, 2 ** 32 - 1)), "ndistinct": draw(st.sampled_from([1, 2, 7, 50, 1000]))},
                "flag_dtype": draw(st.sampled_from(["i4", "i8", "f8"])) if with_flag else None}
    dt = draw(st.sampled_from(INT_TYPES + FLT_TYPES + STR_TYPES))
    pool = draw(st.lists(_elements(dt), min_size=1, max_size=6, unique_by=lambda v: _key(dt, v)))
    arr = draw(st.lists(st.sampled_from(pool), min_size=1, max_size=draw(st.sampled_from([1, 2, 4, 12, 40]))))
    if draw(st.booleans()) and len(set(_key(dt, v) for v in arr)) > 1:
        # force the first element not to be the minimum
        a = _np(dt, arr)
        j = int(np.argmax(a))
        arr[0], arr[j] = arr[j], arr[0]
    case = {"dtype": dt, "arr": arr, "values": draw(st.booleans())}
    if with_flag:
        fdt = draw(st.sampled_from(["i4", "i8", "f8", "u1", "i8big", "u8big"]))
        case["flag_dtype"] = fdt[:2]
        if fdt in ("i8big", "u8big"):
            # 64-bit flags that differ only in their low bits (a float64 detour cannot tell them apart)
            base = draw(st.sampled_from([2 ** 53, 2 ** 60, 2 ** 62, 2 ** 63 - 8] if fdt == "i8big" else
                                        [2 ** 53, 2 ** 63, 2 ** 64 - 8]))
            fel = st.integers(0, 7).map(lambda k, b=base: b + k)
        elif fdt == "f8":
            fel = st.one_of(st.integers(-3, 3).map(float), st.floats(-1e6, 1e6))
        elif fdt == "u1":
            fel = st.integers(0, 3)
        else:
            fel = st.one_of(st.integers(-3, 3), st.integers(-2**31, 2**31 - 1))
        case["flag"] = draw(st.lists(fel, min_size=len(arr), max_size=len(arr)))
    return case


def _dedup_arrays(case):
    """(arr, flag or None) of a de-duplication case."""
    dt = case["dtype"]
    if "big" not in case:
        a = _np(dt, case["arr"])
        flag = np.array(case["flag"], dtype=case["flag_dtype"]) if case.get("flag") is not None else None
        return a, flag
    b = case["big"]
    rng = np.random.Generator(np.random.PCG64(b["seed"]))
    pool = rng.permutation(5 * b["ndistinct"])[:b["ndistinct"]] - 2 * b["ndistinct"]
    a = pool[rng.integers(0, b["ndistinct"], size=b["n"])].astype(dt)
    flag = None
    if case.get("flag_dtype"):
        flag = rng.integers(-1000, 1000, size=b["n"]).astype(case["flag_dtype"])
    return a, flag


def _distinct_positions(dt, a):
    groups = {}
    for i, v in enumerate(a.tolist()):
        groups.setdefault(_key(dt, v) if dt in FLT_TYPES else v, []).append(i)
    return groups


def check_unique(case, ctx):
    import esutil.numpy_util as nu
    dt = case["dtype"]
    a, _ = _dedup_arrays(case)
    groups = _distinct_positions(dt, a)
    idx = np.atleast_1d(must(nu.unique, a))
    require(idx.dtype.kind in "iu", "unique() indices are not integers: %r", idx.dtype)
    require(idx.size == len(groups), "unique() returned %d indices for %d distinct values (arr=%r idx=%r)",
            idx.size, len(groups), a.tolist(), idx.tolist())
    require(all(0 <= i < a.size for i in idx.tolist()), "unique() index out of range: %r", idx.tolist())
    gotvals = set((_key(dt, v) if dt in FLT_TYPES else v) for v in a[idx].tolist())
    require(gotvals == set(groups), "unique() indices do not cover every distinct value once: arr=%r idx=%r",
            a.tolist(), idx.tolist())
    first, first_copy = idx, idx.copy()
    # a later call on other data (not longer than this one) does not disturb the indices already handed out
    sut(nu.unique, a[::-1][: max(1, a.size - 1)].copy())
    require(np.array_equal(first, first_copy), "the indices returned by unique() changed when unique() was called "
            "again on other data: now %r, were %r", first.tolist()[:10], first_copy.tolist()[:10])
    if case["values"]:
        vals = np.atleast_1d(must(nu.unique, a, values=True))
        require(vals.dtype == a.dtype, "unique(values=True) changed dtype %r -> %r", a.dtype, vals.dtype)
        got = sorted((_key(dt, v) if dt in FLT_TYPES else v) for v in vals.tolist())
        require(got == sorted(groups), "unique(values=True) = %r, distinct values are %r", got, sorted(groups))


def check_rem_dup(case, ctx):
    import esutil.numpy_util as nu
    dt = case["dtype"]
    a, flag = _dedup_arrays(case)
    groups = _distinct_positions(dt, a)
    if case["values"]:
        r = must(nu.rem_dup, a, flag, values=True)
        require(isinstance(r, tuple) and len(r) == 2, "rem_dup(values=True) must return (indices, values)")
        idx, vals = np.atleast_1d(r[0]), np.atleast_1d(r[1])
        require(np.array_equal(vals, a[idx]), "rem_dup values %r are not arr[indices] %r", vals.tolist(),
                a[idx].tolist())
    else:
        idx = np.atleast_1d(must(nu.rem_dup, a, flag))
    require(idx.size == len(groups), "rem_dup returned %d indices for %d distinct values (arr=%r idx=%r)",
            idx.size, len(groups), a.tolist(), idx.tolist())
    require(all(0 <= i < a.size for i in idx.tolist()), "rem_dup index out of range: %r", idx.tolist())
    first_copy = idx.copy()
    sut(nu.rem_dup, a[::-1][: max(1, a.size - 1)].copy(), flag[::-1][: max(1, a.size - 1)].copy())
    require(np.array_equal(idx, first_copy), "the indices returned by rem_dup() changed when rem_dup() was called "
            "again on other data: now %r, were %r", idx.tolist()[:10], first_copy.tolist()[:10])
    seen = set()
    for i in idx.tolist():
        v = a.tolist()[i]
        k = _key(dt, v) if dt in FLT_TYPES else v
        require(k not in seen, "rem_dup returned value %r twice (idx=%r)", v, idx.tolist())
        seen.add(k)
        best = max(flag[groups[k]].tolist())
        require(flag[i] == best, "rem_dup kept index %d (flag %r) for value %r but the largest flag is %r",
                i, flag[i], v, best)


def classify_dedup(case):
    dt = case["dtype"]
    if "big" in case:
        return ["dtype:" + dt, "nt:ties", "size:%s" % ("<=10000" if case["big"]["n"] <= 10000 else ">10000"),
                "ndistinct:%d" % case["big"]["ndistinct"]]
    ks = [_key(dt, v) for v in case["arr"]]
    nd = len(set(ks))
    labs = ["dtype:" + dt, "ndistinct:%s" % (nd if nd < 3 else "3+")]
    if nd >= 2 and nd < len(ks):
        labs.append("nt:ties")
    if nd >= 2 and ks[0] != min(ks):
        labs.append("first-not-min")
    return labs


# --------------------------------------------------------------------------------------
# sub-check: mixed integer dtypes and large second arrays
# --------------------------------------------------------------------------------------
# pairs of integer dtypes whose numpy common type is an integer type (comparisons and searches are exact);
# u8 against a signed type promotes to float64 in numpy and is outside what esutil can be held to
def _exact_pair(d1, d2):
    return np.result_type(np.dtype(d1), np.dtype(d2)).kind in "iu"


MIXED_PAIRS = [(a, b) for a in INT_TYPES for b in INT_TYPES if a != b and _exact_pair(a, b)]
BIG_SIZES = [1001, 4097, 10001, 20011, 65537, 100003]


@st.composite
def wide_cases(draw):
    kind = draw(st.sampled_from(["mixed", "mixed", "large", "large-mixed", "large-first"]))
    if kind == "large-first":
        # first array hundreds to ten thousands of times longer than the second, which repeats values
        if draw(st.integers(0, 2)) == 0:
            # the first array is a run of consecutive integers covering most of a narrow type's range
            d1 = draw(st.sampled_from(["i1", "u1", "i2", "u2"]))
            info = np.iinfo(d1)
            full = int(info.max) - int(info.min) + 1
            n1 = draw(st.sampled_from([full, full - 1, full // 2 + 3, full // 2 + 40]))
            start = draw(st.integers(int(info.min), int(info.max) - n1 + 1))
            return {"kind": kind, "dt1": d1, "dt2": d1, "n1": n1, "run_from": start, "seed": draw(st.integers(0, 2**32 - 1)),
                    "pick2": draw(st.lists(st.integers(-3, n1 + 2), min_size=2, max_size=9)),
                    "dup2": draw(st.lists(st.integers(0, 8), min_size=1, max_size=4)),
                    "mode": draw(st.sampled_from(["plain", "presorted", "presorted", "multi"]))}
        d1 = draw(st.sampled_from(["i4", "i8", "f8", "u2"]))
        n1 = draw(st.sampled_from([101, 257, 1001, 4097, 20011])) + draw(st.integers(-2, 2))
        return {"kind": kind, "dt1": d1, "dt2": d1, "n1": n1, "seed": draw(st.integers(0, 2**32 - 1)),
                "pick2": draw(st.lists(st.integers(-3, n1 + 2), min_size=2, max_size=9)),
                "dup2": draw(st.lists(st.integers(0, 8), min_size=1, max_size=4)),
                "mode": draw(st.sampled_from(["plain", "plain", "presorted", "multi"]))}
    if kind == "large":
        d1 = d2 = draw(st.sampled_from(["i4", "i8", "u2", "f8"]))
    else:
        d1, d2 = draw(st.sampled_from(MIXED_PAIRS))
    if d1 == "f8":
        el1 = st.integers(-50, 50).map(float)
    else:
        el1 = _elements(d1)
    a1 = draw(st.lists(el1, min_size=1, max_size=draw(st.sampled_from([1, 3, 8, 30])), unique=True))
    case = {"kind": kind, "dt1": d1, "dt2": d2, "a1": a1,
            "mode": draw(st.sampled_from(["plain", "plain", "presorted", "multi"]))}
    if d2 == "f8":
        probes = [float(v) for v in a1] + [v + 0.5 for v in a1] + [-1e3, 1e3]
    else:
        i1, i2 = np.iinfo(d1 if d1 != "f8" else "i8"), np.iinfo(d2)
        span = int(i1.max) - int(i1.min) + 1
        cand = []
        for v in a1:
            # the value itself and the values that alias onto it when cast to the first array's type
            cand += [v, v + span, v - span, v + 2 * span, -v - 1, v + 1, v - 1]
        cand += [int(i2.min), int(i2.max), 0, -1]
        probes = sorted(set(c for c in cand if int(i2.min) <= c <= int(i2.max)))
    case["probes"] = probes
    if kind == "mixed":
        case["a2"] = draw(st.lists(st.sampled_from(probes), min_size=1, max_size=20))
    else:
        case["n2"] = draw(st.sampled_from(BIG_SIZES)) + draw(st.integers(-3, 3))
        case["seed"] = draw(st.integers(0, 2**32 - 1))
        case["sorted2"] = draw(st.sampled_from([False, False, False, True]))
    return case


def _wide_arrays(case):
    d1, d2 = case["dt1"], case["dt2"]
    if case["kind"] == "large-first":
        rng = np.random.Generator(np.random.PCG64(case["seed"]))
        n1 = case["n1"]
        v1 = (rng.permutation(3 * n1)[:n1] - n1).tolist()       # distinct, unsorted, with gaps
        if "run_from" in case:
            v1 = list(range(case["run_from"], case["run_from"] + n1))
            info = np.iinfo(d1)
            if case["mode"] != "presorted":
                v1 = [v1[i] for i in rng.permutation(n1).tolist()]
            v2 = [v1[k] if 0 <= k < n1 else (int(info.min) if k < 0 else int(info.max)) for k in case["pick2"]]
            v2 = v2 + [v2[k % len(v2)] for k in case["dup2"]]
            if case["mode"] == "presorted":
                v1 = sorted(v1)
            return v1, v2, np.array(v1, dtype=d1), np.array(v2, dtype=d2)
        if d1 == "u2":
            v1 = [v % 65536 for v in (rng.permutation(65536)[:n1]).tolist()]
        if case["mode"] == "presorted":
            v1 = sorted(v1)
        # second array: members of the first by position (out-of-range positions become non-members), some repeated
        v2 = [v1[k] if 0 <= k < n1 else (max(v1) + 1 + abs(k)) % (65536 if d1 == "u2" else 2**31) for k in case["pick2"]]
        v2 = v2 + [v2[k % len(v2)] for k in case["dup2"]]
        if d1 == "f8":
            v1, v2 = [float(v) for v in v1], [float(v) for v in v2]
        return v1, v2, np.array(v1, dtype=d1), np.array(v2, dtype=d2)
    v1 = list(case["a1"])
    if case["mode"] == "presorted":
        v1 = sorted(v1)
    a1 = np.array(v1, dtype=d1)
    if "a2" in case:
        v2 = list(case["a2"])
    else:
        rng = np.random.Generator(np.random.PCG64(case["seed"]))
        pr = case["probes"]
        v2 = [pr[i] for i in rng.integers(0, len(pr), size=case["n2"]).tolist()]
        if case["sorted2"]:
            v2 = sorted(v2)
    a2 = np.array(v2, dtype=d2)
    return v1, v2, a1, a2


def check_wide(case, ctx):
    import esutil.numpy_util as nu
    v1, v2, a1, a2 = _wide_arrays(case)
    if case["mode"] == "presorted":
        r = must(nu.match, a1, a2, presorted=True)
    elif case["mode"] == "multi":
        r = must(nu.match_multi, a1, a2)
    else:
        r = must(nu.match, a1, a2)
    require(isinstance(r, tuple) and len(r) == 2, "match must return two index arrays, got %r", r)
    i1, i2 = np.asarray(r[0]), np.asarray(r[1])
    pos1 = dict((v, i) for i, v in enumerate(v1))          # Python ints / floats: exact equality
    exp1, exp2 = [], []
    for j, v in enumerate(v2):
        if v in pos1:
            exp1.append(pos1[v])
            exp2.append(j)
    require(i1.ndim == 1 and i2.ndim == 1 and i1.size == i2.size, "index arrays differ in length")
    require(i1.size == len(exp1), "match(%s[%d], %s[%d]) returned %d pairs, the model has %d", case["dt1"],
            len(v1), case["dt2"], len(v2), i1.size, len(exp1))
    if i1.size:
        bad = np.nonzero((i1 != np.array(exp1)) | (i2 != np.array(exp2)))[0]
        if bad.size:
            k = int(bad[0])
            raise Violation("match(%s[%d], %s[%d]): pair %d is (%d,%d) = (%r,%r), the model (ordered by position in "
                            "the second array) has (%d,%d) = (%r,%r)" % (
                                case["dt1"], len(v1), case["dt2"], len(v2), k, i1[k], i2[k],
                                v1[int(i1[k])] if 0 <= i1[k] < len(v1) else None,
                                v2[int(i2[k])] if 0 <= i2[k] < len(v2) else None,
                                exp1[k], exp2[k], v1[exp1[k]], v2[exp2[k]]))


def classify_wide(case):
    labs = ["kind:" + case["kind"], "pair:%s/%s" % (case["dt1"], case["dt2"]), "mode:" + case["mode"]]
    if case["kind"] == "large-first":
        n2 = len(case["pick2"]) + len(case["dup2"])
        labs += ["nt:large-first-array", "n1/n2:%s" % (">=100" if case["n1"] >= 100 * n2 else "<100")]
        if "run_from" in case:
            labs.append("first-array-consecutive-run")
        return labs
    if case["kind"] != "large":
        labs.append("nt:mixed-integer-dtypes")
        d1, d2 = np.iinfo(case["dt1"]), np.iinfo(case["dt2"])
        if "a2" in case and any(not (int(d1.min) <= v <= int(d1.max)) for v in case["a2"]):
            labs.append("a2-value-not-representable-in-dtype1")
    if "n2" in case:
        labs.append("nt:large-second-array")
        labs.append("n2:%s" % ("<=10000" if case["n2"] <= 10000 else "<=65536" if case["n2"] <= 65536 else ">65536"))
    return labs


SUBCHECKS = [
    Subcheck("match", match_cases, check_match, classify_match, quick=12000, thorough=300000,
             journal=False),
    Subcheck("match_wide", wide_cases, check_wide, classify_wide, quick=3000, thorough=60000,
             journal=False),
    Subcheck("unique", lambda: dedup_cases(False), check_unique, classify_dedup, quick=6000,
             thorough=100000, journal=False),
    Subcheck("rem_dup", lambda: dedup_cases(True), check_rem_dup, classify_dedup, quick=6000,
             thorough=100000, journal=False),
]
