"""C08 -- angular separations (coords.sphdist, coords.gcirc) equal the true great-circle angle.

Oracle: Vincenty/atan2 separation evaluated in numpy.longdouble on the float64 (or float32)
values actually handed to esutil (vp/oracle/sphere.py, pinned against mpmath in selftest()).
Nothing of esutil is used to compute an expectation; the scalar-vs-array and symmetry relations
are differential checks the statement asks for, applied in addition to the truth comparison.
"""
import warnings

import numpy as np
from hypothesis import strategies as st

from vp.api import Subcheck, must, require
from vp.gen import sky, skyvec
from vp.oracle import sphere

PROPERTY = "C08"
RULE = ("each case = 3..24 Hypothesis-drawn pairs from vp.gen.sky.pair() (uniform, tiny 1e-12..1e-3 deg, small, "
        "180-1e-9..180 deg, exactly antipodal, equal, both near/at a pole, straddling 0/360, special values) plus "
        "a vectorised body of 60..150 pairs of the same families (and same-lon / same-lat / 170..179 deg pairs "
        "around the large-angle threshold) expanded from a drawn integer with PCG64; units deg/deg, rad/rad, "
        "deg/rad, rad/deg for sphdist, degrees-in/radians-out for gcirc; containers f8/f4 arrays of length 1, 3, "
        "N, lists, Python and numpy scalars, scalar-against-array; longitude offsets of +-360/720 deg; sub-check "
        "reuse: arrays of 2^16..2^21 (+1..4000) pairs, and a second call with the same array/list objects after "
        "the caller changed their contents in place. "
        "Non-trivial: the case contains a pair with separation < 1e-3 deg or > 179 deg, a point within 1e-3 deg "
        "of a pole, or a pair whose longitudes straddle 0/360. Distinct = distinct case JSON.")
ASSUMPTIONS = [
    "latitudes lie in [-90,90] degrees (float32 input only in degrees: float32(pi/2) exceeds pi/2)",
    "both points of a call use the same input unit (the API has one input unit per call)",
    "the position angle of gcirc(getangle=True) is not part of the statement; the separation returned with it is "
    "(it must equal the one gcirc() returns)",
    "scalar-vs-array agreement is demanded bit-for-bit (numpy evaluates the same ufunc loops); the truth "
    "comparison is applied to the scalar results as well, so the relation is never the only oracle",
]
TECHNIQUE = ("Hypothesis-generated pair families + PCG64-expanded bodies; oracle = longdouble Vincenty separation of "
             "the exact inputs (self-tested against mpmath at 40 digits), plus symmetry / identity / +360 / "
             "scalar-vs-array relations")
LEVEL_TEXT = ("exploration: ~100-170 pairs per case; sphdist held to 1e-11 deg, gcirc to 2e-6 deg, on every "
              "generated pair of every adversarial family, unit option and container kind")

# sphdist evaluates arcsin(>1) for antipodal pairs before overwriting it with the large-angle
# formula; the RuntimeWarning is not a property violation (the returned value is what is judged)
warnings.filterwarnings("ignore", category=RuntimeWarning, message="invalid value encountered")

LD = sphere.LD
TOL_SPH = 1e-11          # degrees, from the statement
TOL_GC = 2e-6            # degrees, from the statement
UNITS = ["deg/deg", "rad/rad", "deg/rad", "rad/deg"]


def sep_rad(l1, p1, l2, p2):
    """longdouble separation (radians) of points given in radians."""
    l1, p1, l2, p2 = [np.asarray(v, dtype=LD) for v in (l1, p1, l2, p2)]
    dl = l2 - l1
    sp1, cp1, sp2, cp2 = np.sin(p1), np.cos(p1), np.sin(p2), np.cos(p2)
    sdl, cdl = np.sin(dl), np.cos(dl)
    num = np.hypot(cp2 * sdl, cp1 * sp2 - sp1 * cp2 * cdl)
    den = sp1 * sp2 + cp1 * cp2 * cdl
    return np.arctan2(num, den)


def truth(a1, b1, a2, b2, uin, uout):
    """True separation of the inputs exactly as handed over (units uin), expressed in uout."""
    if uin == "deg":
        a1, b1, a2, b2 = [np.asarray(v, dtype=LD) * sphere.D2R for v in (a1, b1, a2, b2)]
    t = sep_rad(a1, b1, a2, b2)
    return t * sphere.R2D if uout == "deg" else t


def selftest():
    sphere.selftest()
    lon1, lat1, lon2, lat2, _ = skyvec.pairs_from_seed(99, 400)
    a = truth(lon1, lat1, lon2, lat2, "deg", "deg")
    b = sphere.sep(lon1, lat1, lon2, lat2)
    if float(np.max(np.abs(a - b))) > 1e-15:
        raise RuntimeError("local radian separation disagrees with sphere.sep")
    c = sphere.sep_vec(sphere.unitvec(lon1, lat1), sphere.unitvec(lon2, lat2))
    if float(np.max(np.abs(a - c))) > 1e-15:
        raise RuntimeError("separation disagrees with the vector route")
    fams = set(skyvec.PAIR_FAMILIES[i] for i in _)
    if len(fams) != len(skyvec.PAIR_FAMILIES):
        raise RuntimeError("pair families starved: %r" % sorted(fams))


# --------------------------------------------------------------------------------------------
# cases
# --------------------------------------------------------------------------------------------
def _pairs(case):
    """float64 degree arrays ra1, dec1, ra2, dec2 of a case (drawn pairs first, then the body)."""
    hp = case["pairs"]
    h = np.array([[p["p"][0], p["p"][1], p["q"][0], p["q"][1]] for p in hp], dtype="f8").reshape(-1, 4)
    if case.get("nvec", 0):
        v = skyvec.pairs_from_seed(case["seed"], case["nvec"])
        cols = [np.concatenate([h[:, i], v[i]]) for i in range(4)]
    else:
        cols = [h[:, i].copy() for i in range(4)]
    n = case.get("take")
    if n:
        cols = [c[:n] for c in cols]
    return cols


def _inputs(case, uin):
    """The arrays handed to esutil: unit conversion and dtype applied; offsets added."""
    ra1, dec1, ra2, dec2 = _pairs(case)
    off1, off2 = case.get("off", [0.0, 0.0])
    ra1 = ra1 + off1
    ra2 = ra2 + off2
    if uin == "rad":
        ra1, dec1, ra2, dec2 = [np.deg2rad(v) for v in (ra1, dec1, ra2, dec2)]
    if case.get("dtype", "f8") == "f4":
        ra1, dec1, ra2, dec2 = [v.astype("f4") for v in (ra1, dec1, ra2, dec2)]
    return ra1, dec1, ra2, dec2


@st.composite
def far_pair(draw):
    """A pair beyond the chord threshold of sphdist's large-angle branch (> 174.3 deg)."""
    p = draw(sky.point())
    if draw(st.booleans()):
        return {"family": "antipodal", "p": p, "q": [p[0] + 180.0 if p[0] < 180.0 else p[0] - 180.0, -p[1]]}
    dist = 180.0 - draw(st.one_of(st.floats(-9.0, 0.0).map(lambda e: 10.0 ** e), st.floats(0.0, 5.0)))
    return {"family": "near-antipodal", "p": p, "q": sky.neighbour(p, draw(st.floats(0.0, 360.0)), dist)}


@st.composite
def value_cases(draw, for_gcirc=False):
    shape = draw(st.sampled_from(["N", "N", "N", "len1", "len3", "len3"]))
    npairs = {"N": draw(st.integers(3, 24)), "len1": 1, "len3": 3}[shape]
    if shape == "len3" and draw(st.booleans()):
        # all three beyond the chord threshold: the wrong-axis indexing of a (3,N) array is silent here
        pairs = draw(st.lists(far_pair(), min_size=3, max_size=3))
    else:
        pairs = draw(st.lists(sky.pair(), min_size=npairs, max_size=npairs))
    case = {"pairs": pairs, "seed": draw(st.integers(0, 2 ** 40)),
            "nvec": draw(st.sampled_from([0, 100, 60, 100, 150, 100])) if shape == "N" else 0}
    if shape != "N":
        case["take"] = npairs
    if for_gcirc:
        case["units"] = "deg/rad"
        case["dtype"] = draw(st.sampled_from(["f8", "f8", "f4"]))
    else:
        case["units"] = draw(st.sampled_from(UNITS))
        case["dtype"] = draw(st.sampled_from(["f8", "f8", "f4"])) if case["units"].startswith("deg") else "f8"
    return case


@st.composite
def shift_cases(draw):
    case = draw(value_cases())
    case["dtype"] = "f8"
    case["off"] = draw(st.sampled_from([[360.0, 0.0], [0.0, 360.0], [360.0, 360.0], [-360.0, 0.0],
                                        [720.0, 0.0], [0.0, -360.0], [360.0, -360.0]]))
    return case


CONTAINERS = ["pyscalar", "npscalar", "list", "scalar-array", "array-scalar", "len1-array", "tuple"]


@st.composite
def container_cases(draw, for_gcirc=False):
    n = draw(st.integers(2, 10))
    case = {"pairs": draw(st.lists(sky.pair(), min_size=n, max_size=n)), "seed": 0, "nvec": 0,
            "units": "deg/rad" if for_gcirc else draw(st.sampled_from(UNITS)),
            "container": draw(st.sampled_from(CONTAINERS))}
    return case


# --------------------------------------------------------------------------------------------
# checks
# --------------------------------------------------------------------------------------------
def _tol(uout, tol_deg):
    return tol_deg if uout == "deg" else tol_deg * float(sphere.D2R)


def _upper(uout):
    return float(np.nextafter(180.0, np.inf)) if uout == "deg" else float(np.nextafter(np.pi, np.inf))


def _check_values(name, d, tr, n, uout, tol_deg, ctx, what=""):
    require(isinstance(d, np.ndarray), "%s%s returned %r, not an array", name, what, type(d))
    require(d.shape == (n,), "%s%s returned shape %r for %d pairs", name, what, d.shape, n)
    require(d.dtype == np.float64, "%s%s returned dtype %r", name, what, d.dtype)
    bad = ~np.isfinite(d)
    require(not bad.any(), "%s%s: non-finite separation %r at pair %d", name, what,
            d[bad][0] if bad.any() else None, int(np.argmax(bad)))
    hi = _upper(uout)
    bad = (d < 0) | (d > hi)
    require(not bad.any(), "%s%s: separation %r outside [0,180 deg] at pair %d", name, what,
            d[bad][0] if bad.any() else None, int(np.argmax(bad)))
    err = np.abs(d.astype(LD) - tr)
    tol = _tol(uout, tol_deg)
    k = int(np.argmax(err))
    require(float(err[k]) <= tol, "%s%s: pair %d separation %.17g differs from the true angle %.17g by %.3g %s "
            "(tolerance %.3g)", name, what, k, d[k], float(tr[k]), float(err[k]), uout, tol)
    return float(err[k]) / tol


def _fmt(v, i):
    return [float(x[i]) for x in v]


def check_sphdist_value(case, ctx):
    import esutil.coords as co
    uin, uout = case["units"].split("/")
    a1, b1, a2, b2 = _inputs(case, uin)
    n = a1.size
    tr = truth(a1, b1, a2, b2, uin, uout)
    d = must(co.sphdist, a1, b1, a2, b2, units=[uin, uout])
    _check_values("sphdist", d, tr, n, uout, TOL_SPH, ctx)
    ctx.count("pairs", n)
    # symmetry
    r = must(co.sphdist, a2, b2, a1, b1, units=[uin, uout])
    _check_values("sphdist", r, tr, n, uout, TOL_SPH, ctx, " (arguments swapped)")
    k = int(np.argmax(np.abs(r - d)))
    require(abs(r[k] - d[k]) <= _tol(uout, TOL_SPH), "sphdist not symmetric at pair %d %r: %.17g vs %.17g", k,
            _fmt((a1, b1, a2, b2), k), d[k], r[k])
    # identical inputs
    same = (a1 == a2) & (b1 == b2)
    require(np.all(d[same] == 0.0), "sphdist of identical inputs is not exactly 0: %r", d[same][d[same] != 0][:3])
    z = must(co.sphdist, a1, b1, a1, b1, units=[uin, uout])
    require(z.shape == (n,) and np.all(z == 0.0), "sphdist(p, p) is not exactly 0: %r", z[z != 0][:3])


def check_sphdist_shift(case, ctx):
    import esutil.coords as co
    uin, uout = case["units"].split("/")
    base = dict(case)
    base["off"] = [0.0, 0.0]
    a1, b1, a2, b2 = _inputs(base, uin)
    s1, _, s2, _ = _inputs(case, uin)
    n = a1.size
    tr0 = truth(a1, b1, a2, b2, uin, uout)
    tr1 = truth(s1, b1, s2, b2, uin, uout)
    d0 = must(co.sphdist, a1, b1, a2, b2, units=[uin, uout])
    d1 = must(co.sphdist, s1, b1, s2, b2, units=[uin, uout])
    _check_values("sphdist", d0, tr0, n, uout, TOL_SPH, ctx)
    _check_values("sphdist", d1, tr1, n, uout, TOL_SPH, ctx, " (longitude offset %r)" % (case["off"],))
    # unchanged up to the movement of the inputs caused by rounding lon+360 (known to the oracle)
    allow = _tol(uout, TOL_SPH) + np.abs(tr1 - tr0).astype("f8")
    diff = np.abs(d1 - d0)
    k = int(np.argmax(diff - allow))
    require(diff[k] <= allow[k], "sphdist changes by %.3g when %r deg is added to the longitudes of pair %d %r",
            diff[k], case["off"], k, _fmt((a1, b1, a2, b2), k))
    ctx.count("pairs", n)


def _container_calls(fn, case, a1, b1, a2, b2, kw):
    """Yield (index or None, result) of calling fn through the container kind of the case."""
    c = case["container"]
    n = a1.size
    if c in ("pyscalar", "npscalar"):
        conv = float if c == "pyscalar" else (lambda x: x)
        for i in range(n):
            yield i, must(fn, conv(a1[i]), conv(b1[i]), conv(a2[i]), conv(b2[i]), **kw)
    elif c == "list":
        yield None, must(fn, a1.tolist(), b1.tolist(), a2.tolist(), b2.tolist(), **kw)
    elif c == "tuple":
        yield None, must(fn, tuple(a1.tolist()), tuple(b1.tolist()), tuple(a2.tolist()), tuple(b2.tolist()), **kw)
    elif c == "len1-array":
        for i in range(n):
            yield i, must(fn, a1[i:i + 1], b1[i:i + 1], a2[i:i + 1], b2[i:i + 1], **kw)
    elif c == "scalar-array":
        yield "first", must(fn, float(a1[0]), float(b1[0]), a2, b2, **kw)
    elif c == "array-scalar":
        yield "second", must(fn, a1, b1, float(a2[0]), float(b2[0]), **kw)
    else:
        raise AssertionError(c)


def _check_containers(name, fn, case, tol_deg, kw, ctx):
    uin, uout = case["units"].split("/")
    a1, b1, a2, b2 = _inputs(case, uin)
    n = a1.size
    ref = must(fn, a1, b1, a2, b2, **kw)
    tr = truth(a1, b1, a2, b2, uin, uout)
    _check_values(name, ref, tr, n, uout, tol_deg, ctx)
    for idx, got in _container_calls(fn, case, a1, b1, a2, b2, kw):
        what = " (%s input)" % case["container"]
        if idx is None:
            _check_values(name, got, tr, n, uout, tol_deg, ctx, what)
            require(np.array_equal(got, ref), "%s%s differs from the array call: %r vs %r", name, what, got, ref)
        elif idx == "first":
            t = truth(a1[0], b1[0], a2, b2, uin, uout)
            _check_values(name, got, t, n, uout, tol_deg, ctx, what)
            ref2 = must(fn, np.full(n, a1[0]), np.full(n, b1[0]), a2, b2, **kw)
            require(np.array_equal(got, ref2), "%s%s differs from the array call: %r vs %r", name, what, got, ref2)
        elif idx == "second":
            t = truth(a1, b1, a2[0], b2[0], uin, uout)
            _check_values(name, got, t, n, uout, tol_deg, ctx, what)
            ref2 = must(fn, a1, b1, np.full(n, a2[0]), np.full(n, b2[0]), **kw)
            require(np.array_equal(got, ref2), "%s%s differs from the array call: %r vs %r", name, what, got, ref2)
        else:
            g = np.atleast_1d(got)
            require(g.shape == (1,), "%s%s returned shape %r", name, what, np.shape(got))
            _check_values(name, g.astype("f8"), tr[idx:idx + 1], 1, uout, tol_deg, ctx, what)
            require(g[0] == ref[idx], "%s%s of pair %r = %.17g but the array call gives %.17g", name, what,
                    _fmt((a1, b1, a2, b2), idx), g[0], ref[idx])
    ctx.count("pairs", n)


def check_sphdist_containers(case, ctx):
    import esutil.coords as co
    uin, uout = case["units"].split("/")
    _check_containers("sphdist", co.sphdist, case, TOL_SPH, {"units": [uin, uout]}, ctx)


def check_gcirc_value(case, ctx):
    import esutil.coords as co
    a1, b1, a2, b2 = _inputs(case, "deg")
    n = a1.size
    tr = truth(a1, b1, a2, b2, "deg", "rad")
    d = must(co.gcirc, a1, b1, a2, b2)
    worst = _check_values("gcirc", d, tr, n, "rad", TOL_GC, ctx)
    for lim in (0.5, 0.75, 0.9):
        if worst > lim:
            ctx.count("gcirc error > %.2f of tolerance" % lim)
    r = must(co.gcirc, a2, b2, a1, b1)
    _check_values("gcirc", r, tr, n, "rad", TOL_GC, ctx, " (arguments swapped)")
    k = int(np.argmax(np.abs(r - d)))
    require(abs(r[k] - d[k]) <= _tol("rad", TOL_GC), "gcirc not symmetric at pair %d: %.17g vs %.17g", k, d[k], r[k])
    same = (a1 == a2) & (b1 == b2)
    require(np.all(d[same] == 0.0), "gcirc of identical inputs is not exactly 0: %r", d[same][d[same] != 0][:3])
    z = must(co.gcirc, a1, b1, a1, b1)
    require(z.shape == (n,) and np.all(z == 0.0), "gcirc(p, p) is not exactly 0: %r", z[z != 0][:3])
    # asking for the position angle as well does not change the separation that is returned with it
    ga = must(co.gcirc, a1, b1, a2, b2, getangle=True)
    require(isinstance(ga, tuple) and len(ga) == 2, "gcirc(getangle=True) must return (distance, angle)")
    require(np.array_equal(np.asarray(ga[0]), d), "gcirc(getangle=True) returns other separations than gcirc(): "
            "first difference %r vs %r", np.asarray(ga[0])[np.asarray(ga[0]) != d][:1], d[np.asarray(ga[0]) != d][:1])
    za = must(co.gcirc, a1, b1, a1, b1, getangle=True)
    require(np.all(np.asarray(za[0]) == 0.0), "gcirc(p, p, getangle=True) separation is not exactly 0: %r",
            np.asarray(za[0])[np.asarray(za[0]) != 0][:3])
    # +360 on a longitude
    for off1, off2 in ((360.0, 0.0), (0.0, 360.0), (-360.0, 360.0)):
        s1 = (a1.astype("f8") + off1)
        s2 = (a2.astype("f8") + off2)
        t1 = truth(s1, b1, s2, b2, "deg", "rad")
        d1 = must(co.gcirc, s1, b1, s2, b2)
        _check_values("gcirc", d1, t1, n, "rad", TOL_GC, ctx, " (longitude offset %r)" % ((off1, off2),))
    ctx.count("pairs", n)


def check_gcirc_containers(case, ctx):
    import esutil.coords as co
    _check_containers("gcirc", co.gcirc, case, TOL_GC, {}, ctx)


# --------------------------------------------------------------------------------------------
# long arrays, and the same argument objects used again after the caller changed their contents
# --------------------------------------------------------------------------------------------
LONG_SIZES = [2 ** 16, 2 ** 18, 2 ** 20, 2 ** 20, 2 ** 21]


@st.composite
def reuse_cases(draw):
    case = {"pairs": draw(st.lists(sky.pair(), min_size=3, max_size=12)), "seed": draw(st.integers(0, 2 ** 40)),
            "nvec": draw(st.sampled_from([60, 100])), "dtype": "f8",
            "fn": draw(st.sampled_from(["sphdist", "sphdist", "gcirc"])),
            "kind": draw(st.sampled_from(["mutate-second", "mutate-second", "mutate-first", "mutate-list", "long"]))}
    case["units"] = "deg/rad" if case["fn"] == "gcirc" else draw(st.sampled_from(UNITS))
    if case["kind"] == "long":
        case["ntotal"] = draw(st.sampled_from(LONG_SIZES)) + draw(st.integers(1, 4000))
    else:
        # what the caller does to his arrays between the two calls
        case["change"] = draw(st.sampled_from(["add", "roll", "assign"]))
        case["delta"] = [draw(st.floats(-170.0, 170.0)), draw(st.floats(-1.0, 1.0))]
    return case


def check_reuse(case, ctx):
    import esutil.coords as co
    uin, uout = case["units"].split("/")
    fn = co.gcirc if case["fn"] == "gcirc" else co.sphdist
    kw = {} if case["fn"] == "gcirc" else {"units": [uin, uout]}
    tol = TOL_GC if case["fn"] == "gcirc" else TOL_SPH
    a1, b1, a2, b2 = _inputs(case, uin)
    n = a1.size
    if case["kind"] == "long":
        nt = case["ntotal"]
        tr = np.resize(truth(a1, b1, a2, b2, uin, uout), nt)
        big = [np.resize(v, nt) for v in (a1, b1, a2, b2)]
        d = must(fn, *big, **kw)
        _check_values(case["fn"], d, tr, nt, uout, tol, ctx, " (%d pairs)" % nt)
        ctx.count("pairs", nt)
        return
    tr = truth(a1, b1, a2, b2, uin, uout)
    aslist = case["kind"] == "mutate-list"
    args = [v.tolist() for v in (a1, b1, a2, b2)] if aslist else [a1, b1, a2, b2]
    d = must(fn, *args, **kw)
    _check_values(case["fn"], d, tr, n, uout, tol, ctx)
    # the caller changes the contents of the arrays he passed (same objects) and asks again
    which = (0, 1) if case["kind"] == "mutate-first" else (2, 3)
    scale = 1.0 if uin == "deg" else float(sphere.D2R)
    dlon, fac = case["delta"][0] * scale, case["delta"][1]
    lon, lat = np.asarray(args[which[0]], dtype="f8"), np.asarray(args[which[1]], dtype="f8")
    if case["change"] == "add":
        newlon, newlat = lon + dlon, lat * fac
    elif case["change"] == "roll":
        newlon, newlat = np.roll(lon, 1), np.roll(lat, 1)
    else:
        newlon, newlat = lon[::-1].copy(), lat[::-1] * fac
    if aslist:
        args[which[0]][:] = newlon.tolist()
        args[which[1]][:] = newlat.tolist()
    else:
        args[which[0]][...] = newlon
        args[which[1]][...] = newlat
    cur = [np.asarray(v, dtype="f8") for v in args]
    tr2 = truth(cur[0], cur[1], cur[2], cur[3], uin, uout)
    d2 = must(fn, *args, **kw)
    _check_values(case["fn"], d2, tr2, n, uout, tol, ctx, " (second call, after the caller changed the contents of "
                  "the %s he passed before)" % ("lists" if aslist else "arrays"))
    ctx.count("pairs", 2 * n)


def classify_reuse(case):
    labs = ["fn:" + case["fn"], "kind:" + case["kind"], "units:" + case["units"]]
    if case["kind"] == "long":
        labs.append("nt:long-array")
        labs.append("n:%s" % (">2^20" if case["ntotal"] > 2 ** 20 else ">2^16"))
    else:
        labs.append("nt:arguments-changed-between-calls")
        labs.append("change:" + case["change"])
    return labs


# --------------------------------------------------------------------------------------------
# classification
# --------------------------------------------------------------------------------------------
def classify(case):
    labs = ["units:" + case["units"]]
    if "container" in case:
        labs.append("container:" + case["container"])
    if "dtype" in case:
        labs.append("dtype:" + case["dtype"])
    if "off" in case:
        labs.append("offset")
    ra1, dec1, ra2, dec2 = _pairs(case)
    n = ra1.size
    labs.append("len:%s" % (n if n in (1, 3) else "N"))
    for p in case["pairs"]:
        labs.append("fam:" + p["family"])
    s = sphere.sep(ra1, dec1, ra2, dec2).astype("f8")
    if np.any(s < 1e-3):
        labs.append("nt:sep<1e-3")
    if np.any((s < 1e-9) & (s > 0)):
        labs.append("sep<1e-9")
    if np.any(s > 179.0):
        labs.append("nt:sep>179")
    if np.any(s > 180.0 - 1e-6):
        labs.append("sep>180-1e-6")
    if np.any(s >= 174.3):
        labs.append("large-angle-branch")
    if n == 3 and np.all(s >= 174.3):
        labs.append("len3-all-large")
    if np.any(np.abs(dec1) > 90 - 1e-3) or np.any(np.abs(dec2) > 90 - 1e-3):
        labs.append("nt:polar")
    if np.any(np.abs(ra1 - ra2) > 180.0):
        labs.append("nt:seam-crossing")
    if np.any((ra1 == ra2) & (dec1 != dec2)):
        labs.append("same-lon-only")
    if np.any((ra1 == ra2) & (dec1 == dec2)):
        labs.append("identical")
    return sorted(set(labs))


SUBCHECKS = [
    Subcheck("sphdist_value", value_cases, check_sphdist_value, classify, quick=4000, thorough=80000,
             journal=False),
    Subcheck("sphdist_shift", shift_cases, check_sphdist_shift, classify, quick=1600, thorough=30000,
             journal=False),
    Subcheck("sphdist_containers", container_cases, check_sphdist_containers, classify, quick=2000,
             thorough=20000, journal=False),
    Subcheck("gcirc_value", lambda: value_cases(True), check_gcirc_value, classify, quick=2400, thorough=60000,
             journal=False),
    Subcheck("gcirc_containers", lambda: container_cases(True), check_gcirc_containers, classify, quick=1000,
             thorough=10000, journal=False),
    Subcheck("reuse", reuse_cases, check_reuse, classify_reuse, quick=800, thorough=8000, journal=False),
]
