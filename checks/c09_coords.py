"""C09 -- celestial coordinate conversions are invertible isometries with correct poles.

Oracles (none calls esutil):
* separations on the sky with the longdouble Vincenty formula of vp/oracle/sphere.py (never by
  comparing longitudes);
* reference rotations built in longdouble from the pole/node constants documented in the source
  (J2000: Hipparcos values quoted in coords.euler; B1950: the IAU-1958 values the tables encode),
  the SDSS node/eta-pole, plain unit vectors, and the zxz matrix Rz(psi).Rx(-theta).Rz(-phi);
* exact rational arithmetic for shiftlon/shiftra.
Differential relations demanded by the statement (inverse, isometry, chains, scalar == array,
wrapper == euler(select)) are applied in addition.
"""
import warnings
from fractions import Fraction

import numpy as np
from hypothesis import strategies as st

from vp.api import Subcheck, must, require
from vp.gen import sky, skyvec
from vp.oracle import sphere

PROPERTY = "C09"
RULE = ("each case = 3..20 Hypothesis-drawn points (uniform, coordinate poles, 0/360 seam, special values incl. "
        "the galactic/ecliptic/SDSS poles and nodes) plus 100 points expanded from a drawn integer with PCG64 "
        "(uniform, coordinate poles, seam, and neighbourhoods 1e-10..1e-1 deg -- and the exact float64 position -- "
        "of the poles of source and target system); euler family: 6 selectors x {J2000,B1950} through the named "
        "wrappers and euler(); chains ec2gal/gal2ec against the two-step route; eq2sdss/sdss2eq; eq2xyz/xyz2eq in "
        "deg and rad with and without stomp; rotate with Euler angles uniform in [-360,360], one in four in [-2000,2000] (several turns), and special values; "
        "shiftlon/shiftra with shift None, +-U(0,1000), multiples of 360, exact complements of the longitude, "
        "wrap True/False; scalar and array inputs. Non-trivial: a point within 1e-2 deg of a pole of the source or "
        "target system, or lon in {0,360}, or a B1950 selector, or a chain (shift: an exact complement / multiple "
        "of 360 / wrap boundary). Distinct = distinct case JSON.")
ASSUMPTIONS = [
    "input longitudes lie in [0,360] and latitudes in [-90,90] (eq2sdss/sdss2eq reject anything else by design); "
    "shiftlon input longitudes lie in the documented [0,360)",
    "dtype='f8' (the default) for the euler family and the SDSS conversions",
    "the statement's tolerances are used: 1e-5 deg for the euler family and rotate (inverse, isometry, reference), "
    "1e-9 deg for SDSS and unit vectors; rotate is additionally held to 1e-9 deg against the longdouble matrix for "
    "points farther than 1e-2 deg from an output pole (silent on any float64 implementation of the documented "
    "formula, whose arcsin conditioning is eps/cos(lat))",
    "B1950 ecliptic<->galactic has no documented constants; its reference is the composition of the IAU-1958 "
    "equatorial<->galactic and equatorial<->ecliptic rotations",
]
TECHNIQUE = ("Hypothesis-generated points + PCG64-expanded bodies aimed at the poles of every source/target system; "
             "oracles: longdouble reference rotations from the documented constants, longdouble Vincenty separations "
             "(self-tested against mpmath), exact rational arithmetic for longitude shifts")
LEVEL_TEXT = ("exploration: ~110-120 points per case through every selector/epoch, SDSS, xyz (deg/rad/stomp), rotate "
              "and shift/wrap; ranges, inverse, isometry, reference rotation, chains, unit length, scalar==array")

warnings.filterwarnings("ignore", category=RuntimeWarning, message="invalid value encountered")

LD = sphere.LD
TOL_EULER = 1e-5
TOL_FINE = 1e-9
EPS = float(np.finfo("f8").eps)

# documented constants (degrees)
J2000 = dict(alphaG=LD("192.85948"), deltaG=LD("27.12825"), lomega=LD("32.93192"), eps=LD("23.4392911111"),
             alphaE=LD("180.02322"), deltaE=LD("29.811438523"), Eomega=LD("6.3839743"))
B1950 = dict(alphaG=LD("192.25"), deltaG=LD("27.4"), lomega=LD("33.0"), eps=LD("23.4457889"))
SDSS_NODE = LD(95)
SDSS_ETAPOLE = LD("32.5")

WRAPPERS = {1: "eq2gal", 2: "gal2eq", 3: "eq2ec", 4: "ec2eq", 5: "ec2gal", 6: "gal2ec"}
INVERSE = {1: 2, 2: 1, 3: 4, 4: 3, 5: 6, 6: 5}


def _matrices(c, have_ecl_gal):
    m1 = sphere.rot_z(-c["lomega"]) @ sphere.rot_x(LD(90) - c["deltaG"]) @ sphere.rot_z(c["alphaG"] + LD(90))
    m3 = sphere.rot_x(c["eps"])
    if have_ecl_gal:
        m5 = sphere.rot_z(-c["Eomega"]) @ sphere.rot_x(LD(90) - c["deltaE"]) @ sphere.rot_z(c["alphaE"] + LD(90))
    else:
        m5 = m1 @ m3.T
    return {1: m1, 2: m1.T, 3: m3, 4: m3.T, 5: m5, 6: m5.T}


REF = {False: _matrices(J2000, True), True: _matrices(B1950, False)}


def apply_matrix(m, lon, lat):
    v = sphere.unitvec(lon, lat)
    return sphere.lonlat(v @ m.T)


def system_poles(m):
    """Poles of the target system in source coordinates and of the source system itself."""
    out = [(0.0, 90.0), (0.0, -90.0)]
    for z in (1, -1):
        lo, la = sphere.lonlat(m.T @ np.array([0, 0, z], dtype=LD))
        out.append((float(lo), float(la)))
    return out


POLES = {(b, s): system_poles(REF[b][s]) for b in (False, True) for s in range(1, 7)}


def selftest():
    sphere.selftest()
    for b in (False, True):
        for s in range(1, 7):
            m = REF[b][s]
            if float(np.max(np.abs(m @ m.T - np.eye(3)))) > 1e-17:
                raise RuntimeError("reference matrix %d/%s is not orthogonal" % (s, b))
    # the documented J2000 ecliptic pole constants agree with the composition to their precision
    d = sphere.sep_vec(REF[False][5] @ np.array([0, 0, 1], dtype=LD),
                       (REF[False][1] @ REF[False][4]) @ np.array([0, 0, 1], dtype=LD))
    if float(d) > 1e-5:
        raise RuntimeError("documented ecliptic/galactic constants inconsistent: %g" % float(d))
    # galactic north pole maps to latitude 90
    lo, la = apply_matrix(REF[False][1], 192.85948, 27.12825)
    if abs(float(la) - 90.0) > 1e-12:
        raise RuntimeError("reference eq->gal does not send the galactic pole to b=90")
    lo, la = apply_matrix(REF[False][1], 282.85948, 0.0)
    if abs(float(la)) > 1e-12 or abs(float(lo) - 32.93192) > 1e-12:
        raise RuntimeError("reference eq->gal does not send the node to l=lomega")


# --------------------------------------------------------------------------------------------
# shared pieces
# --------------------------------------------------------------------------------------------
def _points(case, poles=()):
    h = np.array(case["points"], dtype="f8").reshape(-1, 2)
    if case.get("nvec", 0):
        lo, la, _ = skyvec.points_from_seed(case["seed"], case["nvec"], poles)
        return np.concatenate([h[:, 0], lo]), np.concatenate([h[:, 1], la])
    return h[:, 0].copy(), h[:, 1].copy()


@st.composite
def _body(draw, max_points=20):
    return {"points": draw(sky.points(min_size=3, max_size=max_points)),
            "seed": draw(st.integers(0, 2 ** 40)),
            "nvec": draw(st.sampled_from([0, 100, 100, 100]))}


def _pair_result(name, r, n):
    require(isinstance(r, tuple) and len(r) == 2, "%s must return a pair, got %r", name, type(r))
    a, b = r
    for x in (a, b):
        require(isinstance(x, np.ndarray) and x.shape == (n,), "%s returned %r of shape %r for %d points", name,
                type(x), np.shape(x), n)
    return a, b


def _finite_range(name, lon, lat, lon_lo, lon_hi, lat_lim=90.0, names=("longitude", "latitude")):
    for nm, x in zip(names, (lon, lat)):
        bad = ~np.isfinite(x)
        require(not bad.any(), "%s: non-finite %s %r at point %d", name, nm, x[bad][0] if bad.any() else None,
                int(np.argmax(bad)))
    bad = (lon < lon_lo) | (lon > lon_hi)
    require(not bad.any(), "%s: %s %r outside [%g,%g]", name, names[0], lon[bad][0] if bad.any() else None, lon_lo,
            lon_hi)
    bad = np.abs(lat) > lat_lim
    require(not bad.any(), "%s: %s %r outside [-%g,%g]", name, names[1], lat[bad][0] if bad.any() else None, lat_lim,
            lat_lim)


def _close_on_sky(what, lon_a, lat_a, lon_b, lat_b, tol, src=None, mask=None):
    d = sphere.sep(lon_a, lat_a, lon_b, lat_b).astype("f8")
    if mask is not None:
        d = np.where(mask, d, 0.0)
    k = int(np.argmax(d))
    require(d[k] <= tol, "%s: %.3g deg apart on the sky at point %d%s: (%.17g, %.17g) vs (%.17g, %.17g), tolerance %g",
            what, d[k], k, "" if src is None else " (input %.17g, %.17g)" % (src[0][k], src[1][k]),
            float(lon_a[k]), float(lat_a[k]), float(lon_b[k]), float(lat_b[k]), tol)
    return float(d[k])


def _isometry(what, lon, lat, olon, olat, tol, sep_out=None):
    n = lon.size
    if n < 2:
        return
    for shift in sorted(set([1, max(1, n // 2)])):
        j = np.roll(np.arange(n), shift)
        s_in = sphere.sep(lon, lat, lon[j], lat[j])
        s_out = (sep_out or sphere.sep)(olon, olat, olon[j], olat[j])
        d = np.abs(s_out - s_in).astype("f8")
        k = int(np.argmax(d))
        require(d[k] <= tol, "%s changes the separation of (%.17g, %.17g) and (%.17g, %.17g) from %.12g to %.12g deg "
                "(tolerance %g)", what, lon[k], lat[k], lon[j[k]], lat[j[k]], float(s_in[k]), float(s_out[k]), tol)


# --------------------------------------------------------------------------------------------
# euler family
# --------------------------------------------------------------------------------------------
def _integer_inputs_agree(what, fn, lon, lat, ctx):
    """Whole-degree positions handed over as integer arrays, lists of ints and Python ints give what the same
    positions give as floats (an integer dtype is a legitimate way to hold such coordinates)."""
    ilon = np.round(lon[:8]).astype("i8") % 360
    ilat = np.clip(np.round(lat[:8]), -90, 90).astype("i8")
    ref = fn(ilon.astype("f8"), ilat.astype("f8"))
    rlon, rlat = np.atleast_1d(ref[0]), np.atleast_1d(ref[1])
    for kind in ("i8", "i4", "list", "scalar"):
        if kind == "list":
            got = fn(ilon.tolist(), ilat.tolist())
        elif kind == "scalar":
            got = fn(int(ilon[0]), int(ilat[0]))
        else:
            got = fn(ilon.astype(kind), ilat.astype(kind))
        glon, glat = np.atleast_1d(np.asarray(got[0], dtype="f8")), np.atleast_1d(np.asarray(got[1], dtype="f8"))
        m = glon.size
        require(m == (1 if kind == "scalar" else ilon.size), "%s with %s positions returned %d values", what, kind, m)
        d = np.asarray(sphere.sep(glon, glat, rlon[:m], rlat[:m]), dtype="f8")
        k = int(np.argmax(d))
        require(d[k] <= TOL_FINE, "%s: integer (%s) position (%d, %d) gives (%.12g, %.12g), the same position as float "
                "gives (%.12g, %.12g)", what, kind, ilon[k], ilat[k], glon[k], glat[k], rlon[k], rlat[k])
    ctx.count("integer-typed positions", int(ilon.size))


@st.composite
def euler_cases(draw):
    case = draw(_body())
    case["select"] = draw(st.integers(1, 6))
    case["b1950"] = draw(st.booleans())
    return case


def check_euler(case, ctx):
    import esutil.coords as co
    s, b = case["select"], case["b1950"]
    lon, lat = _points(case, POLES[(b, s)])
    n = lon.size
    name = "%s(b1950=%s)" % (WRAPPERS[s], b)
    olon, olat = _pair_result(name, must(getattr(co, WRAPPERS[s]), lon, lat, b1950=b), n)
    _finite_range(name, olon, olat, 0.0, 360.0)
    elon, elat = _pair_result("euler", must(co.euler, lon, lat, s, b1950=b), n)
    require(np.array_equal(elon, olon) and np.array_equal(elat, olat), "%s differs from euler(select=%d)", name, s)
    # reference rotation from the documented constants
    rlon, rlat = apply_matrix(REF[b][s], lon, lat)
    _close_on_sky(name + " vs the rotation defined by the documented pole/node constants", olon, olat, rlon, rlat,
                  TOL_EULER, (lon, lat))
    # inverse
    inv = WRAPPERS[INVERSE[s]]
    blon, blat = _pair_result(inv, must(getattr(co, inv), olon, olat, b1950=b), n)
    _finite_range(inv, blon, blat, 0.0, 360.0)
    _close_on_sky("%s(%s(p)) vs p" % (inv, name), blon, blat, lon, lat, TOL_EULER, (lon, lat))
    # isometry
    _isometry(name, lon, lat, olon, olat, TOL_EULER)
    # scalar input
    for i in (0, n - 1):
        r = must(getattr(co, WRAPPERS[s]), float(lon[i]), float(lat[i]), b1950=b)
        a, c = _pair_result(name + " (scalar input)", r, 1)
        require(a[0] == olon[i] and c[0] == olat[i], "%s: scalar call gives (%.17g, %.17g), array call (%.17g, %.17g)",
                name, a[0], c[0], olon[i], olat[i])
    _integer_inputs_agree(name, lambda a_, b_: must(getattr(co, WRAPPERS[s]), a_, b_, b1950=b), lon, lat, ctx)
    ctx.count("points", n)


@st.composite
def chain_cases(draw):
    case = draw(_body())
    case["direct"] = draw(st.sampled_from([5, 6]))
    case["b1950"] = draw(st.booleans())
    return case


def check_chain(case, ctx):
    import esutil.coords as co
    s, b = case["direct"], case["b1950"]
    first, second = (4, 1) if s == 5 else (2, 3)          # ec2eq then eq2gal / gal2eq then eq2ec
    poles = POLES[(b, s)] + POLES[(b, first)]
    lon, lat = _points(case, poles)
    n = lon.size
    name = "%s(b1950=%s)" % (WRAPPERS[s], b)
    dlon, dlat = _pair_result(name, must(getattr(co, WRAPPERS[s]), lon, lat, b1950=b), n)
    mlon, mlat = _pair_result(WRAPPERS[first], must(getattr(co, WRAPPERS[first]), lon, lat, b1950=b), n)
    clon, clat = _pair_result(WRAPPERS[second], must(getattr(co, WRAPPERS[second]), mlon, mlat, b1950=b), n)
    _finite_range(name, dlon, dlat, 0.0, 360.0)
    _finite_range("%s.%s" % (WRAPPERS[second], WRAPPERS[first]), clon, clat, 0.0, 360.0)
    _close_on_sky("%s vs %s(%s(p))" % (name, WRAPPERS[second], WRAPPERS[first]), dlon, dlat, clon, clat, TOL_EULER,
                  (lon, lat))
    ctx.count("points", n)


# --------------------------------------------------------------------------------------------
# SDSS survey coordinates
# --------------------------------------------------------------------------------------------
def sdss_reference(ra, dec):
    """(clambda, ceta) in longdouble from node 95 deg and eta-pole 32.5 deg."""
    v = sphere.unitvec(sphere.ld(ra) - SDSS_NODE, dec)
    x, y, z = v[..., 0], v[..., 1], v[..., 2]
    clambda = -np.arctan2(x, np.hypot(y, z)) * sphere.R2D
    ceta = np.arctan2(z, y) * sphere.R2D - SDSS_ETAPOLE
    ceta = np.where(ceta < -180, ceta + 360, ceta)
    return clambda, ceta


SDSS_POLES = [(5.0, 0.0), (185.0, 0.0), (95.0, 0.0), (275.0, 0.0), (185.0, 32.5), (95.0, 90.0 - 32.5),
              (275.0, 32.5 - 90.0)]


def _sdss_points(case):
    return _points(case, SDSS_POLES + [(0.0, 90.0), (0.0, -90.0)])


def check_sdss(case, ctx):
    import esutil.coords as co
    ra, dec = _sdss_points(case)
    n = ra.size
    lam, eta = _pair_result("eq2sdss", must(co.eq2sdss, ra, dec), n)
    _finite_range("eq2sdss", eta, lam, -180.0, 180.0, names=("ceta", "clambda"))
    rlam, reta = sdss_reference(ra, dec)
    # survey coordinates form a sphere with ceta as longitude and clambda as latitude
    _close_on_sky("eq2sdss vs the rotation defined by node 95 / eta-pole 32.5", eta, lam, reta, rlam, TOL_FINE,
                  (ra, dec))
    bra, bdec = _pair_result("sdss2eq", must(co.sdss2eq, lam, eta), n)
    _finite_range("sdss2eq", bra, bdec, 0.0, 360.0)
    _close_on_sky("sdss2eq(eq2sdss(p)) vs p", bra, bdec, ra, dec, TOL_FINE, (ra, dec))
    _isometry("eq2sdss", ra, dec, eta, lam, TOL_FINE)
    for i in (0, n - 1):
        a, c = _pair_result("eq2sdss (scalar input)", must(co.eq2sdss, float(ra[i]), float(dec[i])), 1)
        require(a[0] == lam[i] and c[0] == eta[i], "eq2sdss: scalar call gives (%.17g, %.17g), array call "
                "(%.17g, %.17g)", a[0], c[0], lam[i], eta[i])
    ctx.count("points", n)


def check_sdss_inverse(case, ctx):
    """Start from survey coordinates: the drawn (lon, lat) are read as (ceta + 180, clambda)."""
    import esutil.coords as co
    lon, lat = _points(case, [(147.5, 0.0), (327.5, 0.0), (57.5, 0.0)])
    eta = lon - 180.0
    lam = lat
    n = eta.size
    ra, dec = _pair_result("sdss2eq", must(co.sdss2eq, lam, eta), n)
    _finite_range("sdss2eq", ra, dec, 0.0, 360.0)
    # reference: invert the documented rotation in longdouble
    e = (sphere.ld(eta) + SDSS_ETAPOLE) * sphere.D2R
    la = sphere.ld(lam) * sphere.D2R
    v = np.stack([-np.sin(la), np.cos(e) * np.cos(la), np.sin(e) * np.cos(la)], axis=-1)
    rra, rdec = sphere.lonlat(v)
    rra = rra + SDSS_NODE
    _close_on_sky("sdss2eq vs the rotation defined by node 95 / eta-pole 32.5", ra, dec, rra, rdec, TOL_FINE,
                  (lam, eta))
    blam, beta = _pair_result("eq2sdss", must(co.eq2sdss, ra, dec), n)
    _finite_range("eq2sdss", beta, blam, -180.0, 180.0, names=("ceta", "clambda"))
    _close_on_sky("eq2sdss(sdss2eq(s)) vs s", beta, blam, eta, lam, TOL_FINE, (lam, eta))
    _isometry("sdss2eq", eta, lam, ra, dec, TOL_FINE)
    for i in (0, n - 1):
        a, c = _pair_result("sdss2eq (scalar input)", must(co.sdss2eq, float(lam[i]), float(eta[i])), 1)
        require(a[0] == ra[i] and c[0] == dec[i], "sdss2eq: scalar call gives (%.17g, %.17g), array call "
                "(%.17g, %.17g)", a[0], c[0], ra[i], dec[i])
    ctx.count("points", n)


# --------------------------------------------------------------------------------------------
# unit vectors
# --------------------------------------------------------------------------------------------
@st.composite
def xyz_cases(draw):
    case = draw(_body())
    case["units"] = draw(st.sampled_from(["deg", "rad"]))
    case["stomp"] = draw(st.booleans())
    return case


def check_xyz(case, ctx):
    import esutil.coords as co
    units, stomp = case["units"], case["stomp"]
    lon, lat = _points(case, [(0.0, 90.0), (0.0, -90.0), (95.0, 0.0), (275.0, 0.0)])
    n = lon.size
    if units == "rad":
        a_in, b_in = np.deg2rad(lon), np.deg2rad(lat)
        tlon, tlat = sphere.ld(a_in) * sphere.R2D, sphere.ld(b_in) * sphere.R2D      # the exact inputs, in degrees
    else:
        a_in, b_in = lon, lat
        tlon, tlat = sphere.ld(lon), sphere.ld(lat)
    name = "eq2xyz(units=%r, stomp=%s)" % (units, stomp)
    r = must(co.eq2xyz, a_in, b_in, units=units, stomp=stomp)
    require(isinstance(r, tuple) and len(r) == 3, "%s must return x, y, z", name)
    for c in r:
        require(isinstance(c, np.ndarray) and c.shape == (n,) and c.dtype == np.float64,
                "%s returned %r shape %r", name, type(c), np.shape(c))
    x, y, z = r
    v = np.stack([x, y, z], axis=-1)
    require(np.isfinite(v).all(), "%s returned a non-finite component", name)
    norm = np.sqrt((sphere.ld(v) ** 2).sum(axis=-1))
    k = int(np.argmax(np.abs(norm - 1)))
    require(abs(float(norm[k] - 1)) <= 4 * EPS, "%s: |v| - 1 = %.3g at (%.17g, %.17g)", name, float(norm[k] - 1),
            lon[k], lat[k])
    ref = sphere.unitvec(tlon - (SDSS_NODE if stomp else 0), tlat)
    d = sphere.sep_vec(v, ref).astype("f8")
    k = int(np.argmax(d))
    require(d[k] <= TOL_FINE, "%s: vector of (%.17g, %.17g) is %.3g deg from the true direction", name, lon[k], lat[k],
            d[k])
    # isometry: the angle between two vectors is the separation of the points
    j = np.roll(np.arange(n), 1)
    dv = np.abs(sphere.sep_vec(v, v[j]) - sphere.sep(tlon, tlat, tlon[j], tlat[j])).astype("f8")
    k = int(np.argmax(dv))
    require(dv[k] <= TOL_FINE, "%s changes the separation of points %d and %d by %.3g deg", name, k, j[k], dv[k])
    # inverse
    iname = "xyz2eq(units=%r, stomp=%s)" % (units, stomp)
    blon, blat = _pair_result(iname, must(co.xyz2eq, x, y, z, units=units, stomp=stomp), n)
    if units == "rad":
        require(np.isfinite(blon).all() and np.isfinite(blat).all(), "%s returned a non-finite angle", iname)
        bad = (blon < 0) | (blon > 2 * np.pi * (1 + EPS)) | (np.abs(blat) > np.pi / 2 * (1 + EPS))
        require(not bad.any(), "%s: (%r, %r) outside [0,2pi] x [-pi/2,pi/2] for input (%r, %r) rad", iname,
                blon[bad][:1], blat[bad][:1], a_in[bad][:1], b_in[bad][:1])
        dlon, dlat = sphere.ld(blon) * sphere.R2D, sphere.ld(blat) * sphere.R2D
    else:
        _finite_range(iname, blon, blat, 0.0, 360.0)
        dlon, dlat = blon, blat
    _close_on_sky("%s(%s(p)) vs p" % (iname, name), dlon, dlat, tlon, tlat, TOL_FINE, (lon, lat))
    # scalar input
    for i in (0, n - 1):
        rs = must(co.eq2xyz, float(a_in[i]), float(b_in[i]), units=units, stomp=stomp)
        require(len(rs) == 3 and all(np.shape(c) == (1,) for c in rs), "%s (scalar input) returned shapes %r", name,
                [np.shape(c) for c in rs])
        require(rs[0][0] == x[i] and rs[1][0] == y[i] and rs[2][0] == z[i], "%s: scalar and array calls differ", name)
        rb = must(co.xyz2eq, float(x[i]), float(y[i]), float(z[i]), units=units, stomp=stomp)
        a, c = _pair_result(iname + " (scalar input)", rb, 1)
        require(a[0] == blon[i] and c[0] == blat[i], "%s: scalar call gives (%.17g, %.17g), array call (%.17g, %.17g)",
                iname, a[0], c[0], blon[i], blat[i])
    # the documented dtype option: single-precision vectors and back (held to single precision only)
    r4 = must(co.eq2xyz, a_in, b_in, dtype="f4", units=units, stomp=stomp)
    require(len(r4) == 3 and all(isinstance(c, np.ndarray) and c.shape == (n,) for c in r4),
            "%s with dtype='f4' must return three arrays of %d elements", name, n)
    b4 = _pair_result(iname + " of single-precision vectors", must(co.xyz2eq, r4[0], r4[1], r4[2], units=units,
                                                                   stomp=stomp), n)
    g4lon, g4lat = (sphere.ld(b4[0]) * sphere.R2D, sphere.ld(b4[1]) * sphere.R2D) if units == "rad" else b4
    require(bool(np.isfinite(np.asarray(g4lon, "f8")).all() and np.isfinite(np.asarray(g4lat, "f8")).all()),
            "%s of single-precision vectors is not finite", iname)
    d4 = np.asarray(sphere.sep(g4lon, g4lat, tlon, tlat), dtype="f8")
    k = int(np.argmax(d4))
    require(d4[k] <= 1e-4, "%s(eq2xyz(p, dtype='f4')) is %.3g deg from p = (%.9g, %.9g) (single precision allows ~1e-5)",
            iname, d4[k], lon[k], lat[k])
    ctx.count("points", n)


@st.composite
def vec_cases(draw):
    """xyz2eq on unit vectors that do not come from eq2xyz (rounded longdouble unit vectors)."""
    case = draw(_body())
    case["units"] = draw(st.sampled_from(["deg", "rad"]))
    case["stomp"] = draw(st.booleans())
    return case


def check_xyz2eq(case, ctx):
    import esutil.coords as co
    units, stomp = case["units"], case["stomp"]
    lon, lat = _points(case, [(0.0, 90.0), (0.0, -90.0)])
    n = lon.size
    v = sphere.unitvec(lon, lat).astype("f8")          # float64 unit vectors (|v|-1 <= 2 eps)
    name = "xyz2eq(units=%r, stomp=%s)" % (units, stomp)
    blon, blat = _pair_result(name, must(co.xyz2eq, v[:, 0].copy(), v[:, 1].copy(), v[:, 2].copy(), units=units,
                                         stomp=stomp), n)
    require(np.isfinite(blon).all() and np.isfinite(blat).all(), "%s returned a non-finite angle", name)
    if units == "rad":
        bad = (blon < 0) | (blon > 2 * np.pi * (1 + EPS)) | (np.abs(blat) > np.pi / 2 * (1 + EPS))
        require(not bad.any(), "%s: (%r, %r) rad outside [0,2pi] x [-pi/2,pi/2] for the vector of (%r, %r) deg", name,
                blon[bad][:1], blat[bad][:1], lon[bad][:1], lat[bad][:1])
        dlon, dlat = sphere.ld(blon) * sphere.R2D, sphere.ld(blat) * sphere.R2D
    else:
        _finite_range(name, blon, blat, 0.0, 360.0)
        dlon, dlat = blon, blat
    tlon, tlat = sphere.lonlat(sphere.ld(v))           # true direction of the float64 vector
    if stomp:
        tlon = tlon + SDSS_NODE
    _close_on_sky(name + " vs the true direction of the vector", dlon, dlat, tlon, tlat, TOL_FINE, (lon, lat))
    ctx.count("points", n)


# --------------------------------------------------------------------------------------------
# rotate
# --------------------------------------------------------------------------------------------
ANGLE = st.one_of(st.floats(-360.0, 360.0), st.floats(-360.0, 360.0), st.floats(-2000.0, 2000.0),
                  st.sampled_from([0.0, 90.0, -90.0, 180.0, -180.0, 360.0, -360.0, 45.0, 1e-9, -1e-9, 62.87175,
                                   23.4392911, 540.0, 720.0, -720.0, 900.0, -900.0, 1080.0]))


@st.composite
def rotate_cases(draw):
    case = draw(_body())
    mode = draw(st.sampled_from(["general", "general", "general", "identity", "lonshift"]))
    if mode == "identity":
        ang = [0.0, 0.0, 0.0]
    elif mode == "lonshift":
        ang = [draw(ANGLE), 0.0, 0.0]
    else:
        ang = [draw(ANGLE), draw(ANGLE), draw(ANGLE)]
    case["angles"] = ang
    case["mode"] = mode
    return case


def rotate_matrix(phi, theta, psi):
    return sphere.rot_z(psi) @ sphere.rot_x(-LD(theta)) @ sphere.rot_z(-LD(phi))


def check_rotate(case, ctx):
    import esutil.coords as co
    phi, theta, psi = case["angles"]
    m = rotate_matrix(phi, theta, psi)
    lon, lat = _points(case, system_poles(m))
    n = lon.size
    name = "rotate(%r, %r, %r)" % (phi, theta, psi)
    olon, olat = _pair_result(name, must(co.rotate, phi, theta, psi, lon, lat), n)
    _finite_range(name, olon, olat, 0.0, 360.0)
    rlon, rlat = apply_matrix(m, lon, lat)
    _close_on_sky(name + " vs the zxz matrix", olon, olat, rlon, rlat, TOL_EULER, (lon, lat))
    away = np.abs(rlat.astype("f8")) < 90.0 - 1e-2
    _close_on_sky(name + " vs the zxz matrix (away from the output poles)", olon, olat, rlon, rlat, TOL_FINE,
                  (lon, lat), mask=away)
    ctx.count("points held to 1e-9", int(away.sum()))
    _isometry(name, lon, lat, olon, olat, TOL_EULER)
    # inverse rotation
    blon, blat = _pair_result("rotate", must(co.rotate, psi, -theta, phi, olon, olat), n)
    _finite_range("rotate (inverse)", blon, blat, 0.0, 360.0)
    _close_on_sky("rotate(psi,-theta,phi) applied to %s" % name, blon, blat, lon, lat, TOL_EULER, (lon, lat))
    if case["mode"] == "identity":
        _close_on_sky("rotate(0,0,0) vs identity", olon, olat, lon, lat, TOL_EULER, (lon, lat))
        _close_on_sky("rotate(0,0,0) vs identity (away from the poles)", olon, olat, lon, lat, TOL_FINE, (lon, lat),
                      mask=np.abs(lat) < 90 - 1e-2)
    if case["mode"] == "lonshift":
        _close_on_sky("rotate(phi,0,0) vs a pure longitude shift by phi", olon, olat, sphere.ld(lon) + LD(phi), lat,
                      TOL_EULER, (lon, lat))
    # scalar in -> scalar out, same numbers
    for i in (0, n - 1):
        r = must(co.rotate, phi, theta, psi, float(lon[i]), float(lat[i]))
        require(isinstance(r, tuple) and len(r) == 2 and np.ndim(r[0]) == 0 and np.ndim(r[1]) == 0,
                "%s with scalar position must return scalars, got %r", name, r)
        require(r[0] == olon[i] and r[1] == olat[i], "%s: scalar call gives (%.17g, %.17g), array call (%.17g, %.17g)",
                name, r[0], r[1], olon[i], olat[i])
    rl = must(co.rotate, phi, theta, psi, lon.tolist(), lat.tolist())
    a, c = _pair_result(name + " (list input)", rl, n)
    require(np.array_equal(a, olon) and np.array_equal(c, olat), "%s: list and array calls differ", name)
    _integer_inputs_agree(name, lambda a_, b_: must(co.rotate, phi, theta, psi, a_, b_), lon, lat, ctx)
    ctx.count("points", n)


# --------------------------------------------------------------------------------------------
# shiftlon / shiftra
# --------------------------------------------------------------------------------------------
LON = st.one_of(st.floats(0.0, 360.0, exclude_max=True),
                st.sampled_from([0.0, 180.0, 350.0, 10.0, 359.99999999999994, 180.00000000000003, 179.99999999999997,
                                 90.0, 270.0, 1e-300, 5e-324, 1e-9]),
                st.integers(0, 359).map(float))


@st.composite
def shift_cases(draw):
    lons = draw(st.lists(LON, min_size=1, max_size=20))
    kind = draw(st.sampled_from(["none", "none", "random", "random", "mult360", "complement", "complement", "int",
                                 "tiny"]))
    if kind == "none":
        shift = None
    elif kind == "random":
        shift = draw(st.floats(-1000.0, 1000.0))
    elif kind == "mult360":
        shift = 360.0 * draw(st.integers(-3, 3))
    elif kind == "complement":
        # lon - shift lands exactly on 0 or 360 (in real arithmetic) for one of the longitudes
        base = draw(st.sampled_from(lons))
        shift = draw(st.sampled_from([base, base - 360.0, base + 360.0, base - 720.0]))
    elif kind == "int":
        shift = draw(st.integers(-1000, 1000))
    else:
        shift = draw(st.sampled_from([1e-300, -1e-300, 1e-17, -1e-17, 1e-9, -1e-9, 5e-324]))
    return {"lons": lons, "shift": shift, "kind": kind, "wrap": draw(st.booleans()),
            "fn": draw(st.sampled_from(["shiftlon", "shiftra"])),
            "container": draw(st.sampled_from(["array", "array", "list", "scalar"]))}


def _circ(x):
    """distance of the rational x from the nearest multiple of 360"""
    r = x % 360
    return min(r, 360 - r)


def check_shift(case, ctx):
    import esutil.coords as co
    fn = getattr(co, case["fn"])
    lons = np.array(case["lons"], dtype="f8")
    shift, wrap = case["shift"], case["wrap"]
    name = "%s(shift=%r, wrap=%r)" % (case["fn"], shift, wrap)
    before = lons.copy()
    if case["container"] == "scalar":
        outs = []
        for v in lons.tolist():
            o = must(fn, v, shift=shift, wrap=wrap)
            require(isinstance(o, np.ndarray) and o.shape == (1,), "%s of a scalar returned %r", name, o)
            outs.append(o[0])
        out = np.array(outs)
    else:
        arg = lons if case["container"] == "array" else lons.tolist()
        out = must(fn, arg, shift=shift, wrap=wrap)
        require(isinstance(out, np.ndarray) and out.shape == lons.shape, "%s returned %r", name, out)
    require(np.array_equal(lons, before), "%s modified its input", name)
    require(np.isfinite(out).all(), "%s returned a non-finite value: %r", name, out)
    for lon, o in zip(lons.tolist(), out.tolist()):
        fo, fl = Fraction(o), Fraction(lon)
        if shift is not None:
            exact = (fl - Fraction(shift)) % 360
            require(_circ(fo - (fl - Fraction(shift))) <= Fraction(1, 10 ** 9),
                    "%s: %.17g -> %.17g, but lon - shift = %.17g (mod 360)", name, lon, o, float(exact))
            ok = 0.0 <= o < 360.0 or (o == 360.0 and 360 - exact <= Fraction(1, 10 ** 9))
            require(ok, "%s: %.17g -> %.17g lies outside [0,360) (exact residue %.17g)", name, lon, o, float(exact))
        elif wrap:
            require(-180.0 <= o <= 180.0, "%s: %.17g -> %.17g outside [-180,180]", name, lon, o)
            require(_circ(fo - fl) <= Fraction(1, 10 ** 9), "%s: %.17g -> %.17g is not the same longitude", name, lon, o)
        else:
            require(o == lon, "%s: %.17g -> %.17g but nothing was requested", name, lon, o)


# --------------------------------------------------------------------------------------------
# classification
# --------------------------------------------------------------------------------------------
def _common_labels(lon, lat):
    labs = []
    if np.any((lon == 0.0) | (lon == 360.0)):
        labs.append("nt:lon-0-or-360")
    if np.any(np.abs(lat) > 90 - 1e-2):
        labs.append("nt:source-pole")
    if np.any(np.abs(lat) == 90.0):
        labs.append("exact-source-pole")
    return labs


def classify_euler(case):
    s, b = case["select"], case["b1950"]
    labs = ["select:%d" % s, "epoch:" + ("B1950" if b else "J2000")]
    lon, lat = _points(case, POLES[(b, s)])
    labs += _common_labels(lon, lat)
    _, rlat = apply_matrix(REF[b][s], lon, lat)
    rlat = rlat.astype("f8")
    if np.any(np.abs(rlat) > 90 - 1e-2):
        labs.append("nt:target-pole")
    if np.any(np.abs(rlat) > 90 - 1e-4):
        labs.append("target-pole<1e-4")
    if np.any(rlat < -90 + 1e-4):
        labs.append("target-south-pole<1e-4")
    if b:
        labs.append("nt:b1950")
    return labs


def classify_chain(case):
    return ["nt:chain", "direct:%d" % case["direct"], "epoch:" + ("B1950" if case["b1950"] else "J2000")]


def classify_sdss(case):
    ra, dec = _sdss_points(case)
    labs = _common_labels(ra, dec)
    rlam, reta = sdss_reference(ra, dec)
    if np.any(np.abs(rlam.astype("f8")) > 90 - 1e-2):
        labs.append("nt:target-pole")
    if np.any(np.abs(np.abs(reta.astype("f8")) - 180) < 1e-6):
        labs.append("ceta-seam")
    if np.any(np.abs(rlam.astype("f8")) > 90 - 1e-6):
        labs.append("target-pole<1e-6")
    return labs


def classify_sdss_inverse(case):
    lon, lat = _points(case, [(147.5, 0.0), (327.5, 0.0), (57.5, 0.0)])
    labs = _common_labels(lon, lat)
    return labs


def classify_xyz(case):
    lon, lat = _points(case, [(0.0, 90.0), (0.0, -90.0), (95.0, 0.0), (275.0, 0.0)])
    labs = ["units:" + case["units"], "stomp:%s" % case["stomp"]] + _common_labels(lon, lat)
    if np.any(np.abs(lat) > 90 - 1e-6):
        labs.append("pole<1e-6")
    if np.any(lon > 180):
        labs.append("lon>180")
    return labs


def classify_rotate(case):
    phi, theta, psi = case["angles"]
    m = rotate_matrix(phi, theta, psi)
    lon, lat = _points(case, system_poles(m))
    labs = ["mode:" + case["mode"]] + _common_labels(lon, lat)
    if max(abs(a) for a in case["angles"]) > 540.0:
        labs.append("euler-angle-beyond-540")
    elif max(abs(a) for a in case["angles"]) > 360.0:
        labs.append("euler-angle-beyond-360")
    _, rlat = apply_matrix(m, lon, lat)
    rlat = rlat.astype("f8")
    if np.any(np.abs(rlat) > 90 - 1e-2):
        labs.append("nt:target-pole")
    if np.any(rlat < -90 + 1e-6):
        labs.append("target-south-pole<1e-6")
    return labs


def classify_shift(case):
    labs = ["kind:" + case["kind"], "container:" + case["container"], "wrap:%s" % case["wrap"]]
    if case["kind"] in ("complement", "mult360", "tiny"):
        labs.append("nt:" + case["kind"])
    if case["shift"] is not None:
        sh = Fraction(case["shift"])
        if any((Fraction(v) - sh) % 360 == 0 for v in case["lons"]):
            labs.append("nt:lands-on-0/360")
        if case["shift"] < 0:
            labs.append("negative-shift")
    elif case["wrap"] and any(v >= 180.0 for v in case["lons"]) and any(v <= 180.0 for v in case["lons"]):
        labs.append("nt:wrap-both-sides")
    return labs


SUBCHECKS = [
    Subcheck("euler", euler_cases, check_euler, classify_euler, quick=6000, thorough=80000, journal=False),
    Subcheck("chain", chain_cases, check_chain, classify_chain, quick=1200, thorough=20000, journal=False),
    Subcheck("sdss", _body, check_sdss, classify_sdss, quick=1600, thorough=30000, journal=False),
    Subcheck("sdss_inverse", _body, check_sdss_inverse, classify_sdss_inverse, quick=1000, thorough=20000,
             journal=False),
    Subcheck("xyz", xyz_cases, check_xyz, classify_xyz, quick=1600, thorough=30000, journal=False),
    Subcheck("xyz2eq", vec_cases, check_xyz2eq, classify_xyz, quick=1000, thorough=20000, journal=False),
    Subcheck("rotate", rotate_cases, check_rotate, classify_rotate, quick=2400, thorough=40000, journal=False),
    Subcheck("shift", shift_cases, check_shift, classify_shift, quick=8000, thorough=100000, journal=False),
]
