"""C19 -- random sky positions stay in their region; samplers invert the distribution.

Oracles (none calls esutil):
* region predicates evaluated with the longdouble separation of vp/oracle/sphere.py (cap) and in
  sin(dec) (box);
* the harness's own normalised trapezoid cumulative (longdouble) and piecewise-linear inverse for
  random.Generator, fed through a stub generator whose deviates are chosen by Hypothesis;
* a textbook Cholesky-Banachiewicz factor (longdouble) for cholesky_sample / CholeskySampler with
  a recording deviate source;
* set predicates for random_indices.
"""
import warnings

import numpy as np
from hypothesis import strategies as st

from vp.api import Raised, Subcheck, must, require, sut
from vp.gen import sky
from vp.oracle import sphere

PROPERTY = "C19"
RULE = ("randsphere: boxes [ra_lo,ra_hi] x [dec_lo,dec_hi] inside [0,360] x [-90,90] incl. zero width, polar edges, "
        "default ranges and the full sphere, num 0..2000, system eq/xyz, rng RandomState(s)/default_rng(s); randcap: "
        "centres from vp.gen.sky.point() (uniform, poles, 0/360 seam, special), radius 10^U(-6,2.25) deg and 180, "
        "dorot T/F, get_radius T/F, 1..300 points, both rng kinds, plus a stub rng handing out chosen deviates; "
        "random.Generator: positive densities on increasing uneven grids of 3..60 points as table, as function "
        "(x= or xrange/nx) or as cumulative table, deviates u in [0,1] through a stub rng incl. 0, 1, the tabulated "
        "cumulative values and their neighbours; cholesky_sample/CholeskySampler: SPD A.A^T+dI up to 5x5 with a "
        "recording deviate source; random_indices(imax, nrand, unique, seed|rng). Non-trivial: a cap touching a "
        "pole or the seam or with r > 90 deg, get_radius with rotation, u equal to a tabulated cumulative value, "
        "covariance with n >= 3, unique indices with nrand > imax/2. Distinct = distinct case JSON."
        " Also: integer-typed grids for Generator; cap centres given as 0-d / one-element arrays that are handed over again in the repeated calls.")
RULE += (" " + 'Also (generator): one tabulated density in five is a Gaussian tabulated 5..30 sigma into one or both tails (float64 cumulative saturates inside the grid) with u=0 and u=1 added; functional densities given as a plain function or a bound method.')
ASSUMPTIONS = [
    "support and the deterministic deviate->value map are tested, not uniformity (DESIGN.md section 6)",
    "cap tolerance r + 2e-6 deg + 1e-9 r: the arccos conditioning of the documented algorithm (the statement gives "
    "no tolerance); box test in sin(dec) with 4 eps slack",
    "Generator densities span at most 4 decades and grid steps at most 3 decades so that every cumulative step is "
    "far above rounding; the comparison tolerance scales with the local slope dx/dpcum",
    "the stub generator for randcap implements random(n) and uniform(low, high, size) as the documented algorithm "
    "uses them ('generate uniformly in r**2', 'position angle uniformly 0, 2*PI')",
    "method='cut' of random.Generator is not part of the statement",
]
TECHNIQUE = ("Hypothesis-generated regions/densities/covariances; stub and recording generators make the deviate->value "
             "map deterministic; oracles: longdouble separations, own trapezoid cumulative + linear inverse, own "
             "Cholesky factor, set predicates")
LEVEL_TEXT = ("exploration: every generated box/cap/density/covariance/index request checked against the region "
              "predicate or the reference map; seeded reproducibility for both numpy generator kinds")

warnings.filterwarnings("ignore", category=RuntimeWarning, message="invalid value encountered")

LD = sphere.LD
EPS = float(np.finfo("f8").eps)
CAP_ABS = 2e-6
CAP_REL = 1e-9


def selftest():
    sphere.selftest()
    a = np.array([[4.0, 2.0, 0.4], [2.0, 5.0, 1.0], [0.4, 1.0, 3.0]])
    l = cholesky_ref(a)
    if float(np.max(np.abs(l @ l.T - a))) > 1e-17 or float(abs(l[0, 1])) != 0.0:
        raise RuntimeError("reference Cholesky factor is wrong")
    x = np.array([0.0, 1.0, 3.0])
    p = np.array([1.0, 1.0, 1.0])
    pc = cumulative_ref(x, p)
    if abs(float(pc[0]) - 1.0 / 3.0) > 1e-16 or float(pc[1]) != 1.0:
        raise RuntimeError("reference cumulative is wrong")
    v, _ = inverse_ref(x[1:], pc, np.array([0.5, 1.0]))
    if abs(float(v[0]) - 1.5) > 1e-15 or abs(float(v[1]) - 3.0) > 1e-15:
        raise RuntimeError("reference inverse is wrong")


def _rng(kind, seed):
    return np.random.RandomState(seed) if kind == "RandomState" else np.random.default_rng(seed)


RNG = st.sampled_from(["RandomState", "default_rng"])
SEED = st.integers(0, 2 ** 32 - 1)


# --------------------------------------------------------------------------------------------
# randsphere
# --------------------------------------------------------------------------------------------
RA_EDGE = st.one_of(st.floats(0.0, 360.0), st.sampled_from([0.0, 360.0, 180.0, 1e-9, 359.99999999999994]))
DEC_EDGE = st.one_of(st.floats(-90.0, 90.0), st.floats(-1.0, 1.0).map(lambda v: float(np.degrees(np.arcsin(v)))),
                     st.sampled_from([-90.0, 90.0, 0.0, 89.99999999999999, -89.99999999999999, 89.9999, -89.9999]),
                     st.floats(-9.0, 0.0).map(lambda e: 90.0 - 10.0 ** e),
                     st.floats(-9.0, 0.0).map(lambda e: -90.0 + 10.0 ** e))


@st.composite
def box_cases(draw):
    def rng_of(edge, full):
        k = draw(st.sampled_from(["default", "full", "box", "box", "box", "zero"]))
        if k == "default":
            return None
        if k == "full":
            return list(full)
        a = draw(edge)
        if k == "zero":
            return [a, a]
        b = draw(edge)
        return [min(a, b), max(a, b)]
    return {"ra_range": rng_of(RA_EDGE, (0.0, 360.0)), "dec_range": rng_of(DEC_EDGE, (-90.0, 90.0)),
            "num": draw(st.one_of(st.integers(0, 5), st.integers(0, 2000), st.sampled_from([300, 1000]))),
            "system": draw(st.sampled_from(["eq", "eq", "xyz"])), "rng": draw(RNG), "seed": draw(SEED),
            "container": draw(st.sampled_from(["list", "list", "tuple", "array"]))}


def _as_container(r, kind):
    if r is None:
        return None
    return {"list": list, "tuple": tuple, "array": np.array}[kind](r)


def check_randsphere(case, ctx):
    import esutil.coords as co
    num = case["num"]
    kw = {}
    if case["ra_range"] is not None:
        kw["ra_range"] = _as_container(case["ra_range"], case["container"])
    if case["dec_range"] is not None:
        kw["dec_range"] = _as_container(case["dec_range"], case["container"])
    r = must(co.randsphere, num, rng=_rng(case["rng"], case["seed"]), **kw)
    require(isinstance(r, tuple) and len(r) == 2, "randsphere must return (ra, dec), got %r", type(r))
    ra, dec = r
    for nm, x in (("ra", ra), ("dec", dec)):
        require(isinstance(x, np.ndarray) and x.shape == (num,), "randsphere(%d): %s has shape %r", num, nm,
                np.shape(x))
        require(np.isfinite(x).all(), "randsphere: non-finite %s", nm)
    ralo, rahi = case["ra_range"] or (0.0, 360.0)
    dlo, dhi = case["dec_range"] or (-90.0, 90.0)
    bad = (ra < ralo) | (ra > rahi)
    require(not bad.any(), "randsphere: ra %r outside [%r, %r]", ra[bad][:1], ralo, rahi)
    bad = np.abs(dec) > 90.0
    require(not bad.any(), "randsphere: dec %r outside [-90, 90]", dec[bad][:1])
    sd = np.sin(sphere.ld(dec) * sphere.D2R)
    slo = np.sin(LD(dlo) * sphere.D2R)
    shi = np.sin(LD(dhi) * sphere.D2R)
    bad = (sd < slo - 4 * EPS) | (sd > shi + 4 * EPS)
    require(not bad.any(), "randsphere: dec %r outside [%r, %r] (sin(dec) off the edge by %.3g)", dec[bad][:1], dlo, dhi,
            float(np.max(np.maximum(slo - sd, sd - shi))) if num else 0.0)
    # reproducible for equal seeds
    r2 = must(co.randsphere, num, rng=_rng(case["rng"], case["seed"]), **kw)
    require(np.array_equal(r2[0], ra) and np.array_equal(r2[1], dec), "randsphere: equal seeds give different points")
    if case["system"] == "xyz":
        v = must(co.randsphere, num, system="xyz", rng=_rng(case["rng"], case["seed"]), **kw)
        require(isinstance(v, tuple) and len(v) == 3 and all(np.shape(c) == (num,) for c in v),
                "randsphere(system='xyz') must return x, y, z of length %d", num)
        vv = np.stack(v, axis=-1)
        require(np.isfinite(vv).all(), "randsphere(system='xyz'): non-finite component")
        if num:
            nrm = np.sqrt((sphere.ld(vv) ** 2).sum(axis=-1))
            require(float(np.max(np.abs(nrm - 1))) <= 4 * EPS, "randsphere(system='xyz'): |v|-1 = %.3g",
                    float(np.max(np.abs(nrm - 1))))
            d = sphere.sep_vec(vv, sphere.unitvec(ra, dec)).astype("f8")
            require(d.max() <= 1e-9, "randsphere(system='xyz') is %.3g deg from the (ra, dec) of the same seed", d.max())
    ctx.count("points", num)


def classify_box(case):
    labs = ["rng:" + case["rng"], "system:" + case["system"]]
    for nm in ("ra_range", "dec_range"):
        r = case[nm]
        labs.append("%s:%s" % (nm, "default" if r is None else "zero" if r[0] == r[1] else "box"))
    d = case["dec_range"]
    if d is not None and (abs(d[0]) > 89.0 or abs(d[1]) > 89.0) and case["num"] > 0:
        labs.append("nt:polar-edge")
    if d is not None and d[0] == d[1] and case["num"] > 0:
        labs.append("nt:zero-width")
    if case["num"] == 0:
        labs.append("num:0")
    elif case["ra_range"] is not None and case["dec_range"] is not None:
        labs.append("nt:box")
    return labs


# --------------------------------------------------------------------------------------------
# randcap
# --------------------------------------------------------------------------------------------
RADIUS = st.one_of(st.floats(-6.0, 2.25).map(lambda e: 10.0 ** e), st.floats(-6.0, 2.25).map(lambda e: 10.0 ** e),
                   st.sampled_from([180.0, 90.0, 1e-6, 0.1, 0.01, 179.99]))


@st.composite
def cap_cases(draw):
    c = draw(sky.point())
    if c[0] >= 360.0:
        c = [0.0, c[1]]             # documented: ra within [0,360)
    return {"centre": c, "rad": draw(RADIUS), "n": draw(st.one_of(st.integers(1, 20), st.integers(1, 300))),
            "dorot": draw(st.booleans()), "get_radius": draw(st.booleans()), "rng": draw(RNG), "seed": draw(SEED),
            "centre_as": draw(st.sampled_from(["float", "float", "float", "arr0", "arr1", "f4", "f4arr1"]))}


def _cap_result(name, r, n, get_radius):
    k = 3 if get_radius else 2
    require(isinstance(r, tuple) and len(r) == k, "%s must return %d arrays, got %r", name, k,
            len(r) if isinstance(r, tuple) else type(r))
    for x in r:
        require(isinstance(x, np.ndarray) and x.shape == (n,), "%s: result of shape %r for %d points", name, np.shape(x),
                n)
        require(np.isfinite(x).all(), "%s: non-finite value returned", name)
    return r


def _check_cap(name, r, case):
    ra0, dec0 = case["centre"]
    rad = case["rad"]
    ra, dec = r[0], r[1]
    bad = (ra < 0.0) | (ra > 360.0)
    require(not bad.any(), "%s: ra %r outside [0,360]", name, ra[bad][:1])
    bad = np.abs(dec) > 90.0
    require(not bad.any(), "%s: dec %r outside [-90,90]", name, dec[bad][:1])
    s = sphere.sep(ra0, dec0, ra, dec)
    tol = CAP_ABS + CAP_REL * rad
    k = int(np.argmax(s))
    require(float(s[k]) <= rad + tol, "%s: point (%.17g, %.17g) is %.12g deg from the centre, radius %.12g", name, ra[k],
            dec[k], float(s[k]), rad)
    if len(r) == 3:
        d = np.abs(sphere.ld(r[2]) - s).astype("f8")
        k = int(np.argmax(d))
        require(d[k] <= tol, "%s: returned radius %.12g but the point (%.17g, %.17g) is %.12g deg from the centre", name,
                r[2][k], ra[k], dec[k], float(s[k]))
        require(np.all(r[2] >= 0) and np.all(r[2] <= rad * (1 + 4 * EPS)), "%s: returned radius outside [0, rad]", name)
    return s


def check_randcap(case, ctx):
    import esutil.coords as co
    ra0, dec0 = case["centre"]
    n, rad = case["n"], case["rad"]
    kw = dict(get_radius=case["get_radius"], dorot=case["dorot"])
    name = "randcap(%d, %r, %r, %r, get_radius=%s, dorot=%s)" % (n, ra0, dec0, rad, case["get_radius"], case["dorot"])
    how = case.get("centre_as", "float")
    if how == "arr0":          # the centre taken from a catalogue: numpy values, handed over again in every call below
        ra0, dec0 = np.array(ra0), np.array(dec0)
    elif how == "arr1":
        ra0, dec0 = np.array([ra0]), np.array([dec0])
    elif how in ("f4", "f4arr1"):
        # a centre stored in single precision: the float32 values ARE the centre (as for every float32 input)
        a, b = np.float32(ra0), np.float32(dec0)
        if float(a) >= 360.0:
            a = np.float32(0.0)
        case = dict(case, centre=[float(a), float(b)])
        ra0, dec0 = (a, b) if how == "f4" else (np.array([a]), np.array([b]))
        name = name + " [float32 centre]"
    r = _cap_result(name, must(co.randcap, n, ra0, dec0, rad, rng=_rng(case["rng"], case["seed"]), **kw), n,
                    case["get_radius"])
    _check_cap(name, r, case)
    r2 = must(co.randcap, n, ra0, dec0, rad, rng=_rng(case["rng"], case["seed"]), **kw)
    require(all(np.array_equal(a, b) for a, b in zip(r, r2)), "%s: equal seeds give different points", name)
    if not case["get_radius"]:
        # the radii are an optional *extra*: the positions must not depend on asking for them
        r3 = must(co.randcap, n, ra0, dec0, rad, rng=_rng(case["rng"], case["seed"]), get_radius=True,
                  dorot=case["dorot"])
        _cap_result(name + " [get_radius=True]", r3, n, True)
        require(np.array_equal(r3[0], r[0]) and np.array_equal(r3[1], r[1]),
                "%s: positions change when get_radius=True is passed", name)
    ctx.count("points", n)


def _rotates(case):
    return case["dorot"] or abs(case["centre"][1]) >= 89.9


def classify_cap(case):
    ra0, dec0 = case["centre"]
    rad = case["rad"]
    labs = ["rng:" + case.get("rng", "stub"), "dorot:%s" % case["dorot"], "get_radius:%s" % case["get_radius"],
            "rad:1e%d" % int(np.floor(np.log10(rad)))]
    if 90.0 - abs(dec0) <= rad:
        labs.append("nt:touches-pole")
    cosd = np.cos(np.radians(dec0))
    if cosd < 1e-12 or min(ra0, 360.0 - ra0) * cosd <= rad:
        labs.append("nt:touches-seam")
    if rad > 90.0:
        labs.append("nt:r>90")
    if case["get_radius"] and _rotates(case):
        labs.append("nt:get_radius+rotation")
    if abs(dec0) >= 89.9:
        labs.append("auto-rotation")
    return labs


class StubRng(object):
    """Hands out prepared deviates; records how it was called."""

    def __init__(self, u, psi):
        self.u = np.array(u, dtype="f8")
        self.psi = np.array(psi, dtype="f8")
        self.calls = []

    def random(self, size=None):
        self.calls.append(("random", size))
        return self.u.copy()

    def uniform(self, low=0.0, high=1.0, size=None):
        self.calls.append(("uniform", low, high, size))
        return low + (high - low) * self.psi


U01 = st.one_of(st.floats(0.0, 1.0), st.sampled_from([0.0, 1.0, 0.25, 0.5, 1e-12, 1.0 - 2.0 ** -53]))


@st.composite
def cap_stub_cases(draw):
    c = draw(sky.point())
    if c[0] >= 360.0:
        c = [0.0, c[1]]
    n = draw(st.integers(1, 12))
    return {"centre": c, "rad": draw(RADIUS), "n": n, "dorot": draw(st.booleans()), "get_radius": True,
            "u": draw(st.lists(U01, min_size=n, max_size=n)),
            "psi": draw(st.lists(st.floats(0.0, 1.0, exclude_max=True), min_size=n, max_size=n))}


def _stub_hits_pole(case):
    """The documented position-angle construction divides by sin(colatitude of the new point): a stub deviate
    that lands the point on a coordinate pole is outside what a real generator can produce."""
    ra0, dec0 = case["centre"]
    if _rotates(case):
        dec0 = 0.0                  # generated around (90, 0) and rotated afterwards
    r = case["rad"] * np.sqrt(np.array(case["u"]))
    near, far = 90.0 - abs(dec0), 90.0 + abs(dec0)
    return bool(np.any(np.abs(r - near) < 1e-3) or np.any(np.abs(r - far) < 1e-3))


def check_randcap_stub(case, ctx):
    import esutil.coords as co
    ra0, dec0 = case["centre"]
    n, rad = case["n"], case["rad"]
    if _stub_hits_pole(case):
        ctx.count("stub deviate would land on a coordinate pole: skipped")
        return
    stub = StubRng(case["u"], case["psi"])
    name = "randcap(%d, %r, %r, %r, get_radius=True, dorot=%s, rng=stub)" % (n, ra0, dec0, rad, case["dorot"])
    r = _cap_result(name, must(co.randcap, n, ra0, dec0, rad, get_radius=True, dorot=case["dorot"], rng=stub), n, True)
    _check_cap(name, r, case)
    require(stub.calls and stub.calls[0] == ("random", n), "%s: the radius deviates were not drawn with random(%d): %r",
            name, n, stub.calls[:2])
    # documented: 'generate uniformly in r**2' -> r = rad*sqrt(u)
    expect = LD(rad) * np.sqrt(sphere.ld(case["u"]))
    d = np.abs(sphere.ld(r[2]) - expect).astype("f8")
    k = int(np.argmax(d))
    require(d[k] <= CAP_ABS + CAP_REL * rad, "%s: deviate u=%r gave radius %.12g, uniform-in-r**2 sampling gives %.12g",
            name, case["u"][k], r[2][k], float(expect[k]))
    ctx.count("points", n)


# --------------------------------------------------------------------------------------------
# random.Generator (cumulative method)
# --------------------------------------------------------------------------------------------
def cumulative_ref(x, p):
    """normalised trapezoid cumulative at x[1:], longdouble"""
    x = sphere.ld(x)
    p = sphere.ld(p)
    c = np.cumsum((p[1:] + p[:-1]) * (x[1:] - x[:-1]) / 2)
    return c / c[-1]


def inverse_ref(xv, pc, u):
    """piecewise-linear interpolation of xv against pc at u (pc[0] <= u <= pc[-1]), longdouble"""
    xv, pc, u = sphere.ld(xv), sphere.ld(pc), sphere.ld(u)
    m = np.clip(np.searchsorted(pc, u, side="left") - 1, 0, pc.size - 2)
    return xv[m] + (u - pc[m]) * (xv[m + 1] - xv[m]) / (pc[m + 1] - pc[m]), m


class StubUniform(object):
    def __init__(self, u):
        self.u = np.array(u, dtype="f8")
        self.calls = []

    def uniform(self, low=0.0, high=1.0, size=None):
        self.calls.append((low, high, size))
        return self.u.copy()


class _Dist(object):
    def __init__(self, f):
        self._f = f

    def pdf(self, x):
        return self._f(x)


def _density_arg(case):
    f = _density_fn(case["fkind"], case["fpars"])
    return _Dist(f).pdf if case.get("fas") == "method" else f


def _density_fn(kind, pars):
    a, b, c = pars
    if kind == "gauss":
        return lambda x: np.exp(-0.5 * ((x - a) / b) ** 2) + c
    if kind == "poly":
        return lambda x: c + b * (x - a) ** 2
    return lambda x: c + b * (1 + np.sin(a * x)) / 2


@st.composite
def gen_cases(draw):
    form = draw(st.sampled_from(["points", "points", "func-x", "func-range", "cumulative"]))
    n = draw(st.one_of(st.integers(3, 8), st.integers(3, 60)))
    x0 = draw(st.one_of(st.floats(-100.0, 100.0), st.sampled_from([0.0, -1.0, 1.0])))
    case = {"form": form}
    if form == "func-range":
        case["xrange"] = [x0, x0 + draw(st.floats(0.1, 100.0))]
        case["nx"] = n
    else:
        steps = draw(st.lists(st.floats(-3.0, 0.0).map(lambda e: 10.0 ** e), min_size=n - 1, max_size=n - 1))
        scale = draw(st.sampled_from([1.0, 1.0, 10.0, 0.01]))
        gk = draw(st.integers(0, 9))
        if gk == 0:
            # an almost regular grid: steps equal to within 1e-9..1e-5 (a grid that went through a file, a
            # logarithmic grid over a short range); "regular" it is not
            h = draw(st.floats(0.01, 1.0))
            steps = [h * (1.0 + draw(st.sampled_from([1e-9, 1e-7, 1e-6, 3e-6, 8e-6])) * draw(st.integers(-3, 3)))
                     for _ in range(n - 1)]
            scale = 1.0
            case["grid"] = "almost-regular"
        elif gk == 1:
            # a grid in small units (wavelengths in metres, times in seconds): all steps below 1e-8, unequal
            steps = [draw(st.floats(0.5, 4.0)) * 1e-9 for _ in range(n - 1)]
            scale = 1.0
            x0 = draw(st.sampled_from([0.0, 5e-7, 1e-6]))
            case["grid"] = "tiny-steps"
        xs = [x0]
        for s in steps:
            xs.append(xs[-1] + s * scale)
        case["x"] = xs
        if draw(st.integers(0, 5)) == 0:
            # an integer-typed grid (bin numbers, np.arange): same meaning, other dtype
            xi = [draw(st.integers(-20, 20))]
            for _ in range(n - 1):
                xi.append(xi[-1] + draw(st.integers(1, 4)))
            case["x"] = [float(v) for v in xi]
            case["xint"] = draw(st.sampled_from(["i8", "i4"]))
    if form in ("func-x", "func-range"):
        case["fkind"] = draw(st.sampled_from(["gauss", "poly", "sin"]))
        case["fpars"] = [draw(st.floats(-3.0, 3.0)), draw(st.floats(0.3, 3.0)), draw(st.floats(0.01, 1.0))]
        # the density as the caller has it: a plain function, or the method of an object (dist.pdf)
        case["fas"] = draw(st.sampled_from(["function", "function", "method"]))
    else:
        case["p"] = draw(st.lists(st.floats(-2.0, 2.0).map(lambda e: 10.0 ** e), min_size=n, max_size=n))
        if form == "points" and draw(st.integers(0, 4)) == 0:
            # a positive density tabulated far into its tails (a Gaussian out to 5..30 sigma on one or both sides):
            # in float64 the normalised cumulative reaches 1.0 (or stays at its first value) well inside the grid
            case["tails"] = {"nsig": draw(st.sampled_from([5.0, 8.0, 10.0, 12.0, 20.0, 30.0])),
                             "side": draw(st.sampled_from(["both", "right", "left"]))}
    nu = draw(st.integers(1, 12))
    case["u"] = draw(st.lists(U01, min_size=nu, max_size=nu))
    if "tails" in case:
        case["u"] = case["u"] + [1.0, 0.0]
    # deviates taken from the table itself: index k -> the k-th tabulated cumulative value (+- neighbours)
    case["tab"] = draw(st.lists(st.tuples(st.integers(0, n - 2), st.sampled_from([0, 0, 1, -1])).map(list),
                                min_size=0, max_size=6))
    case["scalar"] = draw(st.booleans())
    if draw(st.integers(0, 29)) == 0:
        case["bulk"] = {"n": draw(st.sampled_from([10001, 65537, 100001, 200001, 300000])), "seed": draw(SEED)}
    return case


def _gen_table(case):
    form = case["form"]
    if form == "func-range":
        x = np.linspace(case["xrange"][0], case["xrange"][1], case["nx"])
    else:
        x = np.array(case["x"], dtype="f8")
    if form in ("func-x", "func-range"):
        p = _density_fn(case["fkind"], case["fpars"])(x)
    else:
        p = np.array(case["p"], dtype="f8")
        if case.get("tails"):
            t = case["tails"]
            lo, hi = x[0], x[-1]
            mid = {"both": (lo + hi) / 2, "right": lo, "left": hi}[t["side"]]
            sig = (hi - lo) / ((2.0 if t["side"] == "both" else 1.0) * t["nsig"])
            p = np.exp(-0.5 * ((x - mid) / sig) ** 2)
    if form == "cumulative":
        p = np.cumsum(p)            # an increasing cumulative table
    return x, p


def check_generator(case, ctx):
    import esutil.random as er
    form = case["form"]
    x, p = _gen_table(case)
    if np.any(np.diff(x) <= 0):
        ctx.count("grid not strictly increasing after rounding: skipped")
        return
    xin = x.astype(case["xint"]) if case.get("xint") else x
    if form == "cumulative":
        xv = sphere.ld(x)
        pc = sphere.ld(p) / sphere.ld(p)[-1]
    else:
        xv = sphere.ld(x)[1:]
        pc = cumulative_ref(x, p)
    npc = pc.size
    stub = StubUniform([0.5])
    if form == "points":
        gen = must(er.Generator, p, x=xin, rng=stub)
    elif form == "cumulative":
        gen = must(er.Generator, p, x=xin, cumulative=True, rng=stub)
    elif form == "func-x":
        gen = must(er.Generator, _density_arg(case), x=xin, rng=stub)
    else:
        gen = must(er.Generator, _density_arg(case), xrange=list(case["xrange"]), nx=case["nx"], rng=stub)
    # the object's cumulative table is the normalised trapezoid rule
    gpc = np.asarray(gen.pcum, dtype="f8")
    require(gpc.shape == (npc,), "Generator.pcum has shape %r, expected %d entries", gpc.shape, npc)
    require(float(np.max(np.abs(gpc - pc))) <= 1e-12, "Generator.pcum differs from the normalised trapezoid "
            "cumulative by %.3g", float(np.max(np.abs(gpc - pc))))
    # deviates: drawn ones plus values of the table itself (inputs, not expectations)
    u = list(case["u"])
    tab_at = {}
    for k, off in case["tab"]:
        k = min(k, npc - 1)
        v = float(gpc[k])
        if off:
            v = float(np.nextafter(v, np.inf if off > 0 else -np.inf))
        v = min(1.0, max(0.0, v))
        if off == 0:
            tab_at[len(u)] = k
        u.append(v)
    if case.get("bulk"):
        # a large request in one call (deviates expanded from a drawn seed, in random order)
        u = u + np.random.Generator(np.random.PCG64(case["bulk"]["seed"])).uniform(0.0, 1.0, case["bulk"]["n"]).tolist()
    u = np.array(u, dtype="f8")
    stub.u = u
    stub.calls = []
    got = must(gen.sample, u.size)
    require(stub.calls == [(0.0, 1.0, u.size)] or (len(stub.calls) == 1 and stub.calls[0][2] == u.size),
            "Generator.sample(%d) drew its deviates with %r", u.size, stub.calls)
    require(isinstance(got, np.ndarray) and got.shape == (u.size,), "Generator.sample(%d) returned shape %r", u.size,
            np.shape(got))
    inside = u >= gpc[0]
    # below the first tabulated value the map is the extension of the first segment; when that segment is flat in
    # float64 (a density tabulated far into a tail) there is no such line and nothing is demanded there
    judged = inside | (gpc[1] > gpc[0] if gpc.size > 1 else False)
    if not judged.all():
        ctx.count("deviates below a flat first segment (nothing demanded)", int((~judged).sum()))
    require(np.isfinite(got[judged]).all(), "Generator.sample returned a non-finite value for u=%r",
            u[judged & ~np.isfinite(got)][:1])
    xscale = float(np.max(np.abs(x)))
    span = float(x[-1] - x[0])
    ref, m = inverse_ref(xv, pc, u)
    # conditioning: the cumulative carries ~npc*eps of rounding, amplified by the local slope dx/dpcum
    slope = np.abs((xv[1:] - xv[:-1]) / (pc[1:] - pc[:-1])).astype("f8")
    loc = np.maximum(slope[m], slope[np.clip(m + 1, 0, slope.size - 1)])
    loc = np.maximum(loc, slope[np.clip(m - 1, 0, slope.size - 1)])
    tol = 1e-12 * max(xscale, span) + 8 * npc * EPS * loc
    err = np.abs(sphere.ld(got) - ref).astype("f8")
    bad = inside & (err > tol)
    require(not bad.any(), "Generator.sample: u=%.17g -> %.17g, interpolation of the grid against the normalised "
            "trapezoid cumulative gives %.17g (tolerance %.3g)", u[bad][0] if bad.any() else 0, got[bad][0] if bad.any()
            else 0, float(ref[bad][0]) if bad.any() else 0, tol[bad][0] if bad.any() else 0)
    ulp = 4 * EPS * max(xscale, span)
    lo = float(xv[0])
    bad = inside & ((got < lo - ulp) | (got > x[-1] + ulp))
    require(not bad.any(), "Generator.sample: u=%r -> %r leaves the grid [%r, %r]", u[bad][:1], got[bad][:1], lo, x[-1])
    for i, k in tab_at.items():
        # several grid points can share one float64 cumulative value (flat tail): each of them is "the" grid point
        tied = np.nonzero(gpc == gpc[k])[0]
        require(any(abs(got[i] - float(xv[t])) <= ulp for t in tied.tolist()), "Generator.sample: u = pcum[%d] = %.17g "
                "-> %.17g, the grid point is %.17g", k, u[i], got[i], float(xv[k]))
    order = np.argsort(u[judged], kind="stable")
    dec = np.diff(got[judged][order])
    require(not np.any(dec < -2 * ulp), "Generator.sample is decreasing in u: u=%r -> %r", u[judged][order],
            got[judged][order])
    ctx.count("deviates", int(u.size))
    ctx.count("deviates below the first tabulated cumulative value (extrapolated, only finite+monotone demanded)",
              int((~inside).sum()))
    if case["scalar"]:
        stub.u = u[:1]
        stub.calls = []
        one = must(gen.sample)
        require(np.ndim(one) == 0 and one == got[0], "Generator.sample() = %r, sample(n)[0] = %r", one, got[0])
        require(len(stub.calls) == 1 and stub.calls[0][2] == 1, "Generator.sample() drew %r", stub.calls)
        alias = must(gen.genrand, 1)
        require(np.shape(alias) == (1,) and alias[0] == got[0], "Generator.genrand(1) = %r", alias)


def classify_gen(case):
    labs = ["form:" + case["form"]]
    if case.get("fas"):
        labs.append("density-given-as:" + case["fas"])
    if case.get("grid"):
        labs.append("grid-kind:" + case["grid"])
    if case.get("tails"):
        labs.append("density-far-into-tails:%g-sigma" % case["tails"]["nsig"])
    if any(off == 0 for _, off in case["tab"]):
        labs.append("nt:u-tabulated")
    if any(off != 0 for _, off in case["tab"]):
        labs.append("u-next-to-tabulated")
    if 0.0 in case["u"]:
        labs.append("u=0")
    if 1.0 in case["u"]:
        labs.append("u=1")
    n = case["nx"] if case["form"] == "func-range" else len(case["x"])
    labs.append("grid:%s" % ("3" if n == 3 else "4-10" if n <= 10 else "11-60"))
    return labs


# --------------------------------------------------------------------------------------------
# Cholesky sampling
# --------------------------------------------------------------------------------------------
def cholesky_ref(a):
    """Cholesky-Banachiewicz, longdouble, lower triangular."""
    a = sphere.ld(a)
    n = a.shape[0]
    l = np.zeros((n, n), dtype=LD)
    for i in range(n):
        for j in range(i + 1):
            s = a[i, j] - (l[i, :j] * l[j, :j]).sum()
            l[i, j] = np.sqrt(s) if i == j else s / l[j, j]
    return l


class Recorder(object):
    def __init__(self, seed):
        self.rng = np.random.Generator(np.random.PCG64(seed))
        self.calls = []
        self.values = []

    def __call__(self, *args):
        self.calls.append(args)
        v = self.rng.standard_normal(int(np.prod(args)) if args else 1).reshape(args)
        self.values.append(v.copy())
        return v


@st.composite
def chol_cases(draw):
    d = draw(st.integers(1, 5))
    el = st.one_of(st.floats(-3.0, 3.0), st.integers(-3, 3).map(float))
    a = draw(st.lists(st.lists(el, min_size=d, max_size=d), min_size=d, max_size=d))
    return {"a": a, "delta": draw(st.floats(0.1, 2.0)),
            "mean": draw(st.one_of(st.none(), st.lists(st.floats(-100.0, 100.0), min_size=d, max_size=d))),
            "n": draw(st.one_of(st.none(), st.integers(1, 40))), "seed": draw(SEED),
            "api": draw(st.sampled_from(["function", "class", "class"])),
            "container": draw(st.sampled_from(["array", "array", "list"]))}


def check_cholesky(case, ctx):
    import esutil.random as er
    a = np.array(case["a"], dtype="f8")
    d = a.shape[0]
    cov = a @ a.T + case["delta"] * np.eye(d)
    cov = (cov + cov.T) / 2
    n = case["n"]
    mean = None if case["mean"] is None else np.array(case["mean"], dtype="f8")
    rec = Recorder(case["seed"])
    if case["api"] == "function":
        nn = n or 1
        name = "cholesky_sample(cov %dx%d, %d%s)" % (d, d, nn, "" if mean is None else ", means")
        out = must(er.cholesky_sample, cov, nn, means=mean, dist=rec)
        scalar = False
    else:
        m = mean if mean is not None else np.zeros(d)
        if case["container"] == "list":
            obj = must(er.CholeskySampler, m.tolist(), cov.tolist(), dist=rec)
        else:
            obj = must(er.CholeskySampler, m, cov, dist=rec)
        mean = m
        name = "CholeskySampler(%dx%d).sample(%r)" % (d, d, n)
        out = must(obj.sample, n) if n is not None else must(obj.sample)
        scalar = n is None
        nn = n or 1
    require(len(rec.calls) == 1 and int(np.prod(rec.calls[0])) == d * nn, "%s drew its deviates with dist%r, expected "
            "%d values", name, rec.calls, d * nn)
    r = sphere.ld(rec.values[0]).reshape(d, nn)
    l = cholesky_ref(cov)
    expect = (l @ r).T
    if mean is not None:
        expect = expect + sphere.ld(mean)[None, :]
    out = np.asarray(out)
    if scalar:
        require(out.shape == (d,), "%s returned shape %r, expected (%d,)", name, out.shape, d)
        out = out[None, :]
    require(out.shape == (nn, d), "%s returned shape %r, expected (%d, %d)", name, out.shape, nn, d)
    scale = float(np.max(np.abs(l))) * max(1.0, float(np.max(np.abs(r)))) * d
    err = np.abs(sphere.ld(out) - expect).astype("f8")
    k = np.unravel_index(int(np.argmax(err)), err.shape)
    require(err[k] <= 1e-9 * scale, "%s: sample %r differs from mean + L.r = %r by %.3g (L = own Cholesky factor of %r)",
            name, out[k[0]].tolist(), [float(v) for v in expect[k[0]]], err[k], cov.tolist())
    if case["api"] != "function":
        # the caller keeps what he got: sampling the same object again (same size) must not change it
        held = np.array(out, copy=True)
        again = must(obj.sample, n) if n is not None else must(obj.sample)
        again = np.asarray(again)
        require(np.array_equal(np.asarray(out), held), "%s: the array returned by the first sample() call was overwritten by "
                "the next sample() call on the same object", name)
        require(len(rec.calls) == 2, "%s: the second sample() call did not draw new deviates", name)


def classify_chol(case):
    d = len(case["a"])
    labs = ["dim:%d" % d, "api:" + case["api"], "container:" + case["container"],
            "mean:%s" % (case["mean"] is not None), "n:%s" % ("none" if case["n"] is None else "k")]
    if d >= 3:
        labs.append("nt:dim>=3")
    return labs


# --------------------------------------------------------------------------------------------
# random_indices
# --------------------------------------------------------------------------------------------
@st.composite
def index_cases(draw):
    unique = draw(st.booleans())
    if unique:
        imax = draw(st.one_of(st.integers(1, 30), st.integers(1, 5000)))
        nrand = draw(st.one_of(st.integers(0, imax), st.sampled_from([imax, imax, max(0, imax - 1)])))
        nrand = min(nrand, 400) if imax > 400 and draw(st.booleans()) else nrand
        if draw(st.integers(0, 7)) == 0:
            # more distinct indices asked for than exist: the request cannot be honoured and must not be answered
            # with repeats
            imax = draw(st.integers(1, 40))
            nrand = imax + draw(st.integers(1, 5))
    else:
        imax = draw(st.one_of(st.integers(1, 30), st.integers(1, 5000), st.integers(1, 2 ** 62)))
        nrand = draw(st.one_of(st.integers(0, 60), st.integers(0, 2 * min(imax, 300))))
    return {"imax": imax, "nrand": nrand, "unique": unique, "how": draw(st.sampled_from(["seed", "rng"])),
            "seed": draw(SEED), "unique_kw": draw(st.booleans())}


def check_indices(case, ctx):
    import esutil.random as er
    imax, nrand, unique = case["imax"], case["nrand"], case["unique"]
    name = "random_indices(%d, %d, unique=%s)" % (imax, nrand, unique)

    def call():
        kw = {}
        if not unique or case["unique_kw"]:
            kw["unique"] = unique
        if case["how"] == "seed":
            kw["seed"] = case["seed"]
        elif case["how"] == "rng":
            kw["rng"] = np.random.default_rng(case["seed"])
        return must(er.random_indices, imax, nrand, **kw)

    if unique and nrand > imax:
        kw = {"seed": case["seed"]} if case["how"] == "seed" else {"rng": np.random.default_rng(case["seed"])}
        r = sut(er.random_indices, imax, nrand, **kw)
        if not isinstance(r, Raised):
            vals = [int(v) for v in np.asarray(r).tolist()]
            require(len(set(vals)) == len(vals) and len(vals) == nrand, "%s: %d unique indices below %d do not "
                    "exist, yet the call returned %r (repeats) instead of refusing", name, nrand, imax, sorted(vals)[:12])
        return
    ind = call()
    require(isinstance(ind, np.ndarray) and ind.shape == (nrand,), "%s returned shape %r", name, np.shape(ind))
    require(ind.dtype.kind in "iu", "%s returned dtype %r", name, ind.dtype)
    vals = [int(v) for v in ind.tolist()]
    require(all(0 <= v < imax for v in vals), "%s: index outside [0, %d): %r", name, imax,
            [v for v in vals if not 0 <= v < imax][:3])
    if unique:
        require(len(set(vals)) == len(vals), "%s returned repeated indices: %r", name, sorted(vals)[:20])
    again = call()
    require(np.array_equal(ind, again), "%s: equal seeds give different indices", name)


def classify_indices(case):
    labs = ["unique:%s" % case["unique"], "how:" + case["how"]]
    if case["unique"] and case["nrand"] > case["imax"]:
        labs.append("nt:more-unique-indices-than-exist")
    if case["unique"] and 2 * case["nrand"] > case["imax"]:
        labs.append("nt:unique-dense")
    if case["unique"] and case["nrand"] == case["imax"]:
        labs.append("permutation")
    if not case["unique"] and case["nrand"] > case["imax"]:
        labs.append("nt:more-than-imax")
    if case["nrand"] == 0:
        labs.append("nrand:0")
    return labs


SUBCHECKS = [
    Subcheck("randsphere", box_cases, check_randsphere, classify_box, quick=3600, thorough=40000, journal=False),
    Subcheck("randcap", cap_cases, check_randcap, classify_cap, quick=9000, thorough=80000, journal=False),
    Subcheck("randcap_stub", cap_stub_cases, check_randcap_stub, classify_cap, quick=3000, thorough=30000,
             journal=False),
    Subcheck("generator", gen_cases, check_generator, classify_gen, quick=6000, thorough=60000, journal=False),
    Subcheck("cholesky", chol_cases, check_cholesky, classify_chol, quick=2400, thorough=30000, journal=False),
    Subcheck("indices", index_cases, check_indices, classify_indices, quick=2400, thorough=30000, journal=False),
]
